(** C13 - The server serves under every runtime thread configuration. *)
From Chokan Require Import Base.ListUtil Server.Protocol Gen.Protocol Server.RuntimeModel.
From Coq Require Import Lia.

(** no background duty is an async task that blocks its worker (extracted from the spawn sites of main.rs) *)
Theorem C13_no_blocking_async_task : blocking_async p_tasks = 0%nat.
Proof. vm_compute. reflexivity. Qed.

(** hence with any number k >= 1 of runtime workers one is always free for connections and requests *)
Theorem C13_serves : forall k, (1 <= k)%nat -> responsive k (blocking_async p_tasks) = true.
Proof. intros k Hk. rewrite C13_no_blocking_async_task. apply responsive_iff. lia. Qed.

(** every background duty has a thread of its own (the blocking pool), whatever k *)
Theorem C13_duties_have_threads : forallb (fun t => match fst (fst t) with SpawnBlocking => true | SpawnAsync => negb (snd (fst t)) end) p_tasks = true.
Proof. vm_compute. reflexivity. Qed.

(** as it was before the repair: four never-yielding async tasks starve every runtime with at most four workers (finding F4) *)
Theorem C13_four_blocking_tasks_refuted : forall k, (1 <= k <= 4)%nat -> responsive k 4 = false.
Proof. intros k Hk. destruct (responsive k 4) eqn:E; [apply responsive_iff in E; lia|reflexivity]. Qed.
