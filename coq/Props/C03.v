(** C03 - Conversion offers every matching dictionary word and only dictionary words. *)
From Chokan Require Import Base.Str Base.ListUtil Dic.Speech Gen.SpeechNames Kkc.Context Gen.ScoreTables
  Kkc.Lattice Kkc.Score Kkc.Heap Kkc.Search Kkc.Paths Kkc.Compose Trie.TrieModel Trie.TrieAbs Kkc.DictTrie.
From Chokan Require Props.C02 Props.Lattice.
Local Open Scope Z_scope.

(** every converted word inside any candidate is an entry of the dictionary whose reading is exactly the kana it covers *)
Theorem C03_only_dictionary : forall input d ctx f n fuel R,
  (1 <= n)%nat -> fq_ok f -> get_candidates fuel input d ctx f n = Ok (Some R) ->
  forall c nd w, In c R -> In (PNode nd) (c_chain c) -> n_kind nd = KWord w ->
  (In w (d_std d) \/ In w (d_anc d)) /\ w_reading w = slice input (n_start nd) (n_end nd) /\ w_reading w <> [].
Proof.
  intros input d ctx f n fuel R Hn Hf H c nd w Hc Hnd Hk.
  destruct (result_is_path fuel input d ctx f n R Hn Hf H) as (g & Hg & Hwf & Hall).
  destruct (Hall c Hc) as (Hch & _).
  eapply Props.Lattice.L_only_dictionary; [exact Hg|apply forward_dp_same_shape|exact Hch|exact Hnd|exact Hk].
Qed.

(** every independent standard word whose reading is a prefix of the input appears, followed by the rest of
    the input verbatim, in the untruncated list (fewer than n entries returned) *)
Theorem C03_offers_prefix_words : forall input d ctx f n fuel R w rest,
  (1 <= n)%nat -> fq_ok f -> get_candidates fuel input d ctx f n = Ok (Some R) -> (length R < n)%nat ->
  In w (d_std d) -> w_reading w <> [] -> is_ancillary (w_speech w) = false -> input = w_reading w ++ rest ->
  In (w_word w ++ rest) (map cand_text R).
Proof.
  intros input d ctx f n fuel R w rest Hn Hf H Hlen Hw Hr Hind Hin.
  apply get_candidates_inv in H as (g & Hg & Hwf & HR).
  destruct (Props.Lattice.L_prefix_word_path input d ctx f g (forward_dp ctx f g) w rest Hg (forward_dp_same_shape ctx f g) Hw Hr Hin)
    as (ch & Hch & Htext & Hconn).
  rewrite <- Htext. eapply untruncated_complete; try eassumption. apply Hconn; assumption.
Qed.

(** the same right after a leading prefix affix, for every independent word the connection rules allow after a prefix *)
Theorem C03_after_prefix : forall input d ctx f n fuel R p w rest,
  (1 <= n)%nat -> fq_ok f -> get_candidates fuel input d ctx f n = Ok (Some R) -> (length R < n)%nat ->
  In p (d_anc d) -> w_speech p = Affix APrefix -> w_reading p <> [] ->
  In w (d_std d) -> w_reading w <> [] -> is_ancillary (w_speech w) = false ->
  0 <= edge_between ctx (Affix APrefix) (w_speech w) ->
  input = w_reading p ++ w_reading w ++ rest ->
  In (w_word p ++ w_word w ++ rest) (map cand_text R).
Proof.
  intros input d ctx f n fuel R p w rest Hn Hf H Hlen Hp Hps Hpr Hw Hwr Hind He Hin.
  apply get_candidates_inv in H as (g & Hg & Hwf & HR).
  destruct (Props.Lattice.L_after_prefix_path_independent input d ctx f g (forward_dp ctx f g) p w rest Hg (forward_dp_same_shape ctx f g)
              Hp Hps Hpr Hw Hwr He Hin) as (ch & Hch & Htext & Hconn).
  rewrite <- Htext. eapply untruncated_complete; try eassumption. apply Hconn; assumption.
Qed.

(** through the real dictionary representation: a trie built by ANY insertion history (any array layout,
    cloned, deserialised, extended at run time) in front of the map shows the engine exactly the words
    whose readings were inserted - all of them when every reading lies in the alphabet *)
Theorem C03_with_trie : forall a t ks ws key, alphabet_ok a -> reachable a t ks ->
  lookup_via_trie t ws key = lookup (filter (fun w => existsb (str_eqb (w_reading w)) ks) ws) key.
Proof. exact lookup_via_trie_reachable. Qed.
Theorem C03_with_trie_full : forall a t ks ws key, alphabet_ok a -> reachable a t ks ->
  (forall w, In w ws -> In (w_reading w) ks) -> lookup_via_trie t ws key = lookup ws key.
Proof. exact lookup_via_trie_full. Qed.
