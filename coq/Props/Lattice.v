(** Structural theorems about the word lattice built by [from_input] (model of libs/kkc/src/graph.rs),
    supporting C01 C03 C07 C16.  Statements only; proofs live in Kkc/LatticeWf.v, Kkc/LatticePaths.v,
    Kkc/LatticeMono.v, Kkc/LatticeEnum.v.  Every theorem is closed under the global context (no axioms).

    Two of the statements that were asked for are FALSE of the model and are delivered in a corrected form:
    - [L_chain_score_kinds] (scores depend only on [kinds]) fails because [kinds] maps both BOS and EOS to [None]
      while the edge out of BOS is scored by [edge_head]; refuted by [L_chain_score_kinds_false], replaced by
      [L_chain_score_kinds_partial] (both lists are complete chains).
    - [L_after_prefix_path] (connectable for every [w] allowed after a prefix) fails when [w] is a standard-dictionary
      word with an ancillary part of speech (e.g. an adverbial particle: edge_between prefix -> it is 0) and something
      follows it, because [edge_virtual] refuses a virtual node after it; refuted by [L_after_prefix_path_false] (see also [L_after_prefix_path_counterexample]);
      replaced by [L_after_prefix_path_partial] (extra hypothesis on [edge_virtual] when [rest <> []]). *)
From Chokan Require Import Base.Str Base.ListUtil Dic.Speech Gen.SpeechNames Kkc.Context Gen.ScoreTables
  Kkc.Lattice Kkc.Score Kkc.Heap Kkc.Search Kkc.Paths Kkc.LatticeWf Kkc.LatticePaths Kkc.LatticeMono Kkc.LatticeEnum.
Local Open Scope Z_scope.

Definition freq_ok (f : freq) : Prop := forall c w, 0 <= freq_of f c w.

(** T1: construction is total and yields a structurally well-formed graph *)
Theorem L_from_input_total : forall input d ctx,
  exists g, from_input input d ctx = Ok g /\ length g = length input /\ graph_wf g.
Proof. exact from_input_total. Qed.
Print Assumptions L_from_input_total.

(** T2 (C01): every complete chain of the lattice, or of any graph of the same shape (e.g. after forward_dp), tiles the input *)
Theorem L_chain_tiles : forall input d ctx g g' ch,
  input <> [] -> from_input input d ctx = Ok g -> same_shape g g' -> complete_chain g' ch ->
  c01_ok input ch (chain_text ch) = true.
Proof. exact chain_tiles. Qed.
Print Assumptions L_chain_tiles.

(** T3 (C03): every word node on a chain is a dictionary word whose reading is exactly the kana it covers *)
Theorem L_only_dictionary : forall input d ctx g g' ch n w,
  from_input input d ctx = Ok g -> same_shape g g' -> complete_chain g' ch ->
  In (PNode n) ch -> n_kind n = KWord w ->
  (In w (d_std d) \/ In w (d_anc d)) /\ w_reading w = slice input (n_start n) (n_end n) /\ w_reading w <> [].
Proof. exact only_dictionary. Qed.
Print Assumptions L_only_dictionary.

(** T4 (C03): a standard word whose reading is a prefix of the input gives the path  BOS . w . [virtual rest] . EOS,
    which is connectable when w is an independent (non-ancillary) word *)
Theorem L_prefix_word_path : forall input d ctx f g g' w rest,
  from_input input d ctx = Ok g -> same_shape g g' ->
  In w (d_std d) -> w_reading w <> [] -> input = w_reading w ++ rest ->
  exists ch, complete_chain g' ch /\ chain_text ch = w_word w ++ rest
             /\ (is_ancillary (w_speech w) = false -> freq_ok f -> connectable ctx f ch).
Proof. exact prefix_word_path. Qed.
Print Assumptions L_prefix_word_path.

(** T5 (C03), corrected: the same right after a leading prefix affix, for every word the connection rules allow after
    a prefix; the path  BOS . p . w . [virtual rest] . EOS  always exists, and it is connectable provided that, when
    something follows [w], the rules let a virtual node follow [w] (added hypothesis) *)
Theorem L_after_prefix_path_partial : forall input d ctx f g g' p w rest,
  from_input input d ctx = Ok g -> same_shape g g' ->
  In p (d_anc d) -> w_speech p = Affix APrefix -> w_reading p <> [] ->
  In w (d_std d) -> w_reading w <> [] ->
  0 <= edge_between ctx (Affix APrefix) (w_speech w) ->
  input = w_reading p ++ w_reading w ++ rest ->
  exists ch, complete_chain g' ch /\ chain_text ch = w_word p ++ w_word w ++ rest
             /\ (freq_ok f -> (rest <> [] -> 0 <= edge_virtual ctx (w_speech w)) -> connectable ctx f ch).
Proof. exact after_prefix_path_partial. Qed.
Print Assumptions L_after_prefix_path_partial.

(** ... in particular for every independent (non-ancillary) word *)
Theorem L_after_prefix_path_independent : forall input d ctx f g g' p w rest,
  from_input input d ctx = Ok g -> same_shape g g' ->
  In p (d_anc d) -> w_speech p = Affix APrefix -> w_reading p <> [] ->
  In w (d_std d) -> w_reading w <> [] ->
  0 <= edge_between ctx (Affix APrefix) (w_speech w) ->
  input = w_reading p ++ w_reading w ++ rest ->
  exists ch, complete_chain g' ch /\ chain_text ch = w_word p ++ w_word w ++ rest
             /\ (freq_ok f -> is_ancillary (w_speech w) = false -> connectable ctx f ch).
Proof. exact after_prefix_path_independent. Qed.
Print Assumptions L_after_prefix_path_independent.

(** the counterexample to T5 as first stated: prefix "1", adverbial particle "2" in the STANDARD dictionary, input "123":
    all hypotheses of T5 hold, the lattice has exactly two complete paths, and neither is connectable *)
Example L_after_prefix_path_counterexample :
  let p := T5Counterexample.p in let w := T5Counterexample.w in let d := T5Counterexample.d in
  let input := T5Counterexample.input in let g := T5Counterexample.g in
  from_input input d CNormal = Ok g /\ In p (d_anc d) /\ w_speech p = Affix APrefix /\ In w (d_std d) /\
  0 <= edge_between CNormal (Affix APrefix) (w_speech w) /\ input = w_reading p ++ w_reading w ++ [3%N] /\
  map (fun ch => (chain_text ch, chain_score CNormal [] ch)) (all_paths g)
  = [([101; 102; 3]%N, NON_CONNECT); ([101; 2; 3]%N, NON_CONNECT)].
Proof. vm_compute. repeat split; auto; discriminate. Qed.
(** [all_paths] is exactly the set of complete chains of a well-formed graph, so the computation above is conclusive: *)
Theorem L_all_paths_spec : forall g ch, graph_wf g -> (In ch (all_paths g) <-> complete_chain g ch).
Proof. exact all_paths_spec. Qed.
Print Assumptions L_all_paths_spec.
Theorem L_after_prefix_path_false :
  ~ (forall input d ctx f g g' p w rest,
       from_input input d ctx = Ok g -> same_shape g g' ->
       In p (d_anc d) -> w_speech p = Affix APrefix -> w_reading p <> [] ->
       In w (d_std d) -> w_reading w <> [] ->
       0 <= edge_between ctx (Affix APrefix) (w_speech w) ->
       input = w_reading p ++ w_reading w ++ rest ->
       exists ch, complete_chain g' ch /\ chain_text ch = w_word p ++ w_word w ++ rest
                  /\ (freq_ok f -> connectable ctx f ch)).
Proof. exact after_prefix_path_false. Qed.
Print Assumptions L_after_prefix_path_false.

(** T6 (C16): proper-noun mode builds exactly the normal lattice *)
Theorem L_proper_same_lattice : forall input d, from_input input d CProper = from_input input d CNormal.
Proof. exact proper_same_lattice. Qed.
Print Assumptions L_proper_same_lattice.

(** T7 (C16 / C07): the lattice only grows with the dictionary and with head-mergeability.
    dict_le: every word of d occurs in d' (standard in standard, ancillary in ancillary);
    ctx_le: whatever may head the lattice under ctx may under ctx'. Every complete chain then has a
    counterpart with the same node kinds (hence same text, same node/edge scores up to the context) *)
Definition dict_le (d d' : dict) : Prop := incl (d_std d) (d_std d') /\ incl (d_anc d) (d_anc d').
Definition ctx_le (c c' : context) : Prop := forall sp, head_mergeable c sp = true -> head_mergeable c' sp = true.
Definition kinds (ch : list pnode) : list (option nkind) :=
  map (fun p => match p with PNode n => Some (n_kind n) | _ => None end) ch.
Theorem L_chain_transfer : forall input d d' c c' g g1 g' g1' ch,
  dict_le d d' -> ctx_le c c' ->
  from_input input d c = Ok g -> same_shape g g1 ->
  from_input input d' c' = Ok g' -> same_shape g' g1' ->
  complete_chain g1 ch ->
  exists ch', complete_chain g1' ch' /\ kinds ch' = kinds ch.
Proof. exact chain_transfer. Qed.
Print Assumptions L_chain_transfer.
Theorem L_ctx_le_normal : forall c, ctx_le CNormal c.
Proof. exact ctx_le_normal. Qed.
Print Assumptions L_ctx_le_normal.

(** the node-level fact behind T7: every node kind of the small lattice sits at the same index of the big one *)
Theorem L_lattice_mono : forall input d d' c c', dict_le d d' -> ctx_le c c' -> forall g g',
  from_input input d c = Ok g -> from_input input d' c' = Ok g' ->
  forall j k, has g j k -> has g' j k.
Proof. exact final_mono. Qed.
Print Assumptions L_lattice_mono.

(** T8 (C16): the first part of a chain is a standard-dictionary word, or an ancillary word allowed to head the lattice
    in this context; the latter is never a particle or an auxiliary verb *)
Theorem L_head_part : forall input d ctx g g' n rest w,
  from_input input d ctx = Ok g -> same_shape g g' -> complete_chain g' (PBos :: PNode n :: rest) -> n_kind n = KWord w ->
  In w (d_std d) \/ (In w (d_anc d) /\ head_mergeable ctx (w_speech w) = true).
Proof. exact head_part. Qed.
Print Assumptions L_head_part.
Theorem L_head_is_word : forall input d ctx g g' n rest,
  from_input input d ctx = Ok g -> same_shape g g' -> complete_chain g' (PBos :: PNode n :: rest) ->
  exists w, n_kind n = KWord w.
Proof. exact head_is_word. Qed.
Print Assumptions L_head_is_word.
Theorem L_head_mergeable_not_particle : forall ctx sp, head_mergeable ctx sp = true ->
  (forall t, sp <> Particle t) /\ sp <> AuxiliaryVerb.
Proof. exact head_mergeable_not_particle. Qed.
Print Assumptions L_head_mergeable_not_particle.

(** T9, corrected: scores of a complete chain depend only on the node kinds (so transferred chains score alike when
    the context is the same).  Without "complete" the statement is false: *)
Theorem L_chain_score_kinds_false :
  ~ (forall ctx f ch ch', kinds ch = kinds ch' -> chain_score ctx f ch = chain_score ctx f ch').
Proof.
  intro H.
  pose (n := {| n_end := 0; n_slot := 0; n_score := 0;
                n_kind := KWord {| w_word := [100%N]; w_reading := [1%N]; w_speech := Counter |} |}).
  specialize (H CNumeral [] [PBos; PNode n] [PEos; PNode n] eq_refl). vm_compute in H. discriminate H.
Qed.
Print Assumptions L_chain_score_kinds_false.
Theorem L_chain_score_kinds_partial : forall ctx f g g' ch ch',
  complete_chain g ch -> complete_chain g' ch' ->
  kinds ch = kinds ch' -> chain_score ctx f ch = chain_score ctx f ch'.
Proof. exact chain_score_kinds_complete. Qed.
Print Assumptions L_chain_score_kinds_partial.
Theorem L_chain_text_kinds : forall ch ch', kinds ch = kinds ch' -> chain_text ch = chain_text ch'.
Proof. exact chain_text_kinds. Qed.
Print Assumptions L_chain_text_kinds.

(** T7 + T9 together: under the same context the counterpart has the same text and the same score *)
Theorem L_chain_transfer_scores : forall input d d' c f g g1 g' g1' ch,
  dict_le d d' ->
  from_input input d c = Ok g -> same_shape g g1 ->
  from_input input d' c = Ok g' -> same_shape g' g1' ->
  complete_chain g1 ch ->
  exists ch', complete_chain g1' ch' /\ kinds ch' = kinds ch /\
              chain_text ch' = chain_text ch /\ chain_score c f ch' = chain_score c f ch.
Proof.
  intros input d d' c f g g1 g' g1' ch Hd Hg Hs Hg' Hs' Hc.
  destruct (chain_transfer input d d' c c g g1 g' g1' ch Hd (fun sp H => H) Hg Hs Hg' Hs' Hc) as (ch' & Hc' & Hk).
  exists ch'. repeat split; try apply Hc'; try assumption.
  - apply chain_text_kinds. assumption.
  - apply (chain_score_kinds_complete c f g1' g1); assumption.
Qed.
Print Assumptions L_chain_transfer_scores.

(** * Non-vacuity: a lattice with words at the last character together with virtual tails, and a prefix followed by a word *)
Module LatticeExample.
  Local Open Scope N_scope.
  Definition pre := {| w_word := [101]; w_reading := [1]; w_speech := Affix APrefix |}.
  Definition n1 := {| w_word := [105]; w_reading := [1]; w_speech := Noun NCommon |}.
  Definition n23 := {| w_word := [103]; w_reading := [2; 3]; w_speech := Noun NCommon |}.
  Definition n3 := {| w_word := [104]; w_reading := [3]; w_speech := Noun NCommon |}.
  Definition v2 := {| w_word := [106]; w_reading := [2]; w_speech := Verb Godan 7 |}.
  Definition ga := {| w_word := [107]; w_reading := [3]; w_speech := Particle PCase |}.
  Definition d := {| d_std := [n1; n23; n3; v2]; d_anc := [pre; ga] |}.
  Definition input : str := [1; 2; 3].
  Definition nd e s k := {| n_end := e; n_slot := s; n_kind := k; n_score := 0 |}.
End LatticeExample.
Example L_lattice_example :
  let pre := LatticeExample.pre in let n1 := LatticeExample.n1 in let n23 := LatticeExample.n23 in
  let v2 := LatticeExample.v2 in let ga := LatticeExample.ga in let nd := LatticeExample.nd in
  from_input LatticeExample.input LatticeExample.d CNormal =
  Ok [[nd 0 0 (KWord n1); nd 0 1 (KWord pre)]%nat;
      [nd 1 0 (KWord v2)]%nat;
      [nd 2 0 (KWord n23); nd 2 1 (KWord ga); nd 2 2 (KVirtual [3%N]); nd 2 3 (KVirtual [2%N; 3%N])]%nat].
Proof. vm_compute. reflexivity. Qed.
(** its eight complete paths (text, score, tiling check); e.g. prefix+noun "101 103" and prefix+verb+virtual "101 106 3"
    are connectable, while the particle 107 cannot be followed through *)
Example L_lattice_example_paths :
  match from_input LatticeExample.input LatticeExample.d CNormal with
  | Ok g => map (fun ch => (chain_text ch, chain_score CNormal [] ch, c01_ok LatticeExample.input ch (chain_text ch))) (all_paths g)
  | _ => []
  end =
  [([105; 103]%N, NON_CONNECT, true); ([101; 103]%N, 1, true);
   ([105; 106; 107]%N, NON_CONNECT, true); ([101; 106; 107]%N, NON_CONNECT, true);
   ([105; 106; 3]%N, NON_CONNECT, true); ([101; 106; 3]%N, 1, true);
   ([105; 2; 3]%N, 1, true); ([101; 2; 3]%N, NON_CONNECT, true)].
Proof. vm_compute. reflexivity. Qed.
