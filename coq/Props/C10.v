(** C10 - The text dictionary format round-trips every entry and isolates bad lines.
    Statements only; proofs live in Dic/TextFormatProofs.v. *)
From Chokan Require Import Base.Str Dic.Speech Dic.PegAlt Gen.SpeechNames Gen.DicGrammar Dic.TextFormat Dic.TextFormatProofs.

(** the part-of-speech space has exactly 116 values, all distinct *)
Theorem C10_speech_space : length (all_speeches g_rows) = 116%nat /\ NoDup (all_speeches g_rows).
Proof. exact (conj all_speeches_count all_speeches_nodup). Qed.

(** each of them parses back under the grammar's ordered choice, whatever follows *)
Theorem C10_speech_roundtrip : forall sp rest, In sp (all_speeches g_rows) ->
  parse_speech (SLASH :: speech_name sp ++ SLASH :: rest) = Some (sp, SLASH :: rest).
Proof. exact speech_roundtrip. Qed.

(** every entry (any kana reading, any stem without blank) reads back as exactly itself *)
Theorem C10_entry_roundtrip : forall e, entry_printable e = true -> parse_line (print_entry e) = Some [e].
Proof. exact entry_roundtrip. Qed.

(** distinct entries never read back equal *)
Theorem C10_injective : forall e1 e2, entry_printable e1 = true -> entry_printable e2 = true ->
  print_entry e1 = print_entry e2 -> e1 = e2.
Proof. exact print_injective. Qed.

(** a multi-speech line reads as one entry per speech, in order *)
Theorem C10_multi_speech : forall r s sps,
  kana_reading r = true -> stem_ok s = true -> sps <> [] -> forallb speech_ok sps = true ->
  parse_line (print_multi r s sps) = Some (map (fun sp => {| e_reading := r; e_stem := s; e_speech := sp |}) sps).
Proof. exact multi_speech_roundtrip. Qed.

(** the entries read from a file are the concatenation of what each line yields on its own *)
Theorem C10_line_isolation : forall ls, ls <> [] -> forallb (fun l => negb (mem_chr NL l)) ls = true ->
  read_all (join_with NL ls) = flat_map parse_or_nil ls.
Proof. exact line_isolation. Qed.

(** a malformed line is skipped and affects no other line *)
Theorem C10_bad_line_skipped : forall before bad after,
  parse_line bad = None -> mem_chr NL bad = false ->
  forallb (fun l => negb (mem_chr NL l)) (before ++ after) = true ->
  read_all (join_with NL (before ++ bad :: after)) = flat_map parse_or_nil before ++ flat_map parse_or_nil after.
Proof. exact bad_line_skipped. Qed.

(** writing a dictionary and reading it back gives the same entries, one line per entry *)
Theorem C10_file_roundtrip : forall es, forallb entry_printable es = true -> read_all (write_all es) = es.
Proof. exact file_roundtrip. Qed.

(** non-vacuity: a concrete printable entry with '/' and ';' in its stem *)
Example C10_nonvacuous :
  entry_printable {| e_reading := [12383; 12409]%N; e_stem := [39135; 47; 59; 12409]%N; e_speech := Verb SimoIchidan 12496%N |} = true.
Proof. vm_compute. reflexivity. Qed.
