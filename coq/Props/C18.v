(** C18 - SKK import is total and everything it emits is a valid, faithful dictionary line.
    Statements only; proofs in Skk/SkkProofs.v, Skk/NotesProofs.v, Skk/NotesParse.v.
    Models: Skk/SkkLine.v (SKK line grammar + noun/jinmei/tankan converters; classes from Gen/SkkGrammar.v, rule shapes
    pinned by the translator), Skk/Notes.v (notes grammar; text pinned by hash), Skk/NotesConv.v (converter; text pinned
    by hash; dictionary-form okurigana table generated: Gen/SkkOkuri.v).  Totality "for arbitrary text": the models are
    total Gallina functions returning a structured value; that the implementation never panics where the model returns a
    value is what the correspondence check observes. *)
From Chokan Require Import Base.Str Base.ListUtil Dic.Speech Dic.PegAlt Gen.SpeechNames Gen.DicGrammar Dic.TextFormat
  Dic.ConjRule Gen.ConjTables Dic.Conjugation Dic.Gojuon Dic.ConjProofs
  Gen.SkkGrammar Skk.SkkLine Skk.SkkProofs Skk.SkkParse Gen.SkkOkuri Skk.Notes Skk.NotesConv Skk.NotesProofs Skk.NotesParse Skk.NotesPrint Skk.NotesFaithful.
Local Open Scope N_scope.

(** the SKK parser returns exactly the reading, okuri letters and candidate words written in a well-formed line,
    annotations stripped *)
Theorem C18_skk_faithful : forall reading okuri blanks ws, wf_line reading okuri blanks ws = true ->
  parse_skk (print_skk reading okuri blanks ws)
  = Some (Some {| k_reading := reading; k_okuri := match okuri with [] => None | _ => Some okuri end; k_words := map fst ws |}).
Proof. exact parse_skk_faithful. Qed.

(** every entry the noun / jinmei / tankan converters build from a parsed line reads back as itself *)
Theorem C18_simple_emitted_valid : forall v reading w, negb (match reading with [] => true | _ => false end) = true -> forallb is_skk_kana reading = true ->
  negb (match w with [] => true | _ => false end) = true -> forallb is_no_space w = true -> mem_chr NL w = false ->
  let e := {| e_reading := reading; e_stem := w; e_speech := Noun v |} in
  parse_line (print_entry e) = Some [e].
Proof. exact emitted_valid. Qed.

(** ... in particular every entry the three converters emit for ANY line (without a newline) they accept *)
Theorem C18_nouns_line_to_dictionary : forall s es, mem_chr NL s = false -> parse_nouns s = Some (Some es) ->
  forall e, In e es -> parse_line (print_entry e) = Some [e].
Proof. exact nouns_line_to_dictionary. Qed.
Theorem C18_propers_line_to_dictionary : forall s es, mem_chr NL s = false -> parse_propers s = Some (Some es) ->
  forall e, In e es -> parse_line (print_entry e) = Some [e].
Proof. exact propers_line_to_dictionary. Qed.
Theorem C18_tankan_line_to_dictionary : forall s es, mem_chr NL s = false -> parse_tankan s = Some (Some es) ->
  forall e, In e es -> parse_line (print_entry e) = Some [e].
Proof. exact tankan_line_to_dictionary. Qed.

(** the notes parser returns exactly the structure a well-formed notes line writes (Skk/NotesPrint.v: headword, okuri
    letter, and per candidate the stem with each listed speech - fixed and class okuri, a second ignored okuri, headers,
    notes, derived / okuri-nasi / bare candidates; the subsidiary verb yields nothing), annotations stripped *)
Theorem C18_notes_faithful : forall w, w_note_ok w = true -> parse_note (print_note w) = Some (expected w).
Proof. exact parse_print_note. Qed.

(** the notes converter produces entries or takes its explicit unsupported-conjugation rejection, nothing else *)
Theorem C18_notes_total : forall n, forallb (fun e => speech_supported (ne_speech e)) (nt_entries n) = true -> exists l, note_to_converted n = Ok l.
Proof. exact notes_total. Qed.

Theorem C18_notes_fail_only_unsupported : forall n, (forall l, note_to_converted n <> Ok l) ->
  exists e c row o, In e (nt_entries n) /\ ne_speech e = NSVerb c row o /\ skk_okuri c row = None.
Proof. exact notes_fail_only_unsupported. Qed.

(** whatever the notes parser returns for a line is well formed ... *)
Theorem C18_parse_note_wf : forall s n, mem_chr NL s = false -> parse_note s = Some (Some n) -> note_wf n = true.
Proof. exact parse_note_wf. Qed.

(** ... and every line emitted for a well-formed note is accepted by the dictionary format and reads back as the same
    reading, written form and part of speech *)
Theorem C18_notes_emitted_valid : forall n l, note_wf n = true -> note_to_converted n = Ok l ->
  forall c, In c l -> parse_line (print_converted c) = Some [entry_of c].
Proof. exact notes_emitted_valid. Qed.

Theorem C18_notes_line_to_dictionary : forall s n l, mem_chr NL s = false -> parse_note s = Some (Some n) -> note_to_converted n = Ok l ->
  forall c, In c l -> parse_line (print_converted c) = Some [entry_of c].
Proof. intros s n l Hs Hp. exact (notes_emitted_valid n l (parse_note_wf s n Hs Hp)). Qed.

(** every (class,row) the converter supports - except ワ行上二 (finding F19) - conjugates in chokan-dic: a non-empty set
    of words, the row's core forms present, every okurigana beginning in the row the SKK okuri letter names *)
Theorem C18_base_verb_conjugates : forall c row k stem sr, skk_okuri c row = Some k -> (c, row) <> (KamiNidan, 12527) -> sr <> [] ->
  exists r forms, lookup_rule verb_table c row = Some r /\ to_forms (Verb c row) stem sr = Ok forms /\ forms <> []
    /\ rule_core c row r = true /\ (forall ok, In ok (rule_okuris r) -> okuri_in_row c row ok = true).
Proof. exact base_verb_conjugates. Qed.

(** F19: the converter supports ワ行上二 but the conjugation table has no such row *)
Theorem C18_base_verb_refuted : skk_okuri KamiNidan 12527 <> None /\ lookup_rule verb_table KamiNidan 12527 = None.
Proof. exact okuri_row_refuted. Qed.

(** non-vacuity: a real notes line is parsed, converted and read back *)
Example C18_example :
  let s := [12358; 12372; 107; 32; 47; 21205; 59; 8741; 12459; 34892; 20116; 27573; 40; 45; 12367; 41; 47] in   (* うごk /動;∥カ行五段(-く)/ *)
  exists n l, parse_note s = Some (Some n) /\ note_wf n = true /\ note_to_converted n = Ok l
    /\ map print_converted l = [[12358; 12372; 9; 21205; 9; 47; 12459; 34892; 20116; 27573; 47]].   (* うご\t動\t/カ行五段/ *)
Proof. vm_compute. eexists. eexists. repeat split. Qed.

Print Assumptions C18_skk_faithful.
Print Assumptions C18_simple_emitted_valid.
Print Assumptions C18_nouns_line_to_dictionary.
Print Assumptions C18_propers_line_to_dictionary.
Print Assumptions C18_tankan_line_to_dictionary.
Print Assumptions C18_notes_faithful.
Print Assumptions C18_notes_total.
Print Assumptions C18_notes_fail_only_unsupported.
Print Assumptions C18_parse_note_wf.
Print Assumptions C18_notes_emitted_valid.
Print Assumptions C18_notes_line_to_dictionary.
Print Assumptions C18_base_verb_conjugates.
Print Assumptions C18_base_verb_refuted.
