(** C19 - Client romaji engine: every table spelling is typeable, conversion is total.
    Tables, consonants and the scan bound come from chokan.el (Gen/ElispTables.v, regenerated every run). *)
From Chokan Require Import Base.Str Base.ListUtil Gen.ElispTables Gen.KanaTable Kana.Romaji Kana.RomajiProofs Kana.RomajiIdem.

Definition R2H : str -> option str := r2h el_roman_table el_consonants el_scan_bound.
Definition KATA : str -> str := hira_to_kata el_katakana_table.

Lemma el_no_empty_key : assoc_str [] el_roman_table = None.
Proof. vm_compute. reflexivity. Qed.

(** typing any spelling listed in the romaji table yields exactly its table kana - for every key of the table *)
Theorem C19_table_typeable : forallb (fun kv => match R2H (fst kv) with Some v => str_eqb v (snd kv) | None => false end) el_roman_table = true.
Proof. vm_compute. reflexivity. Qed.

Theorem C19_table_typeable_each : forall k v, In (k, v) el_roman_table -> R2H k = Some v.
Proof.
  intros k v Hin. pose proof C19_table_typeable as H. rewrite forallb_forall in H. specialize (H _ Hin). cbn [fst snd] in H.
  destruct (R2H k) as [r|]; [|discriminate]. apply str_eqb_spec in H. congruence.
Qed.

(** converting any key sequence terminates *)
Theorem C19_total : forall s, exists r, R2H s = Some r.
Proof. exact (r2h_total el_roman_table el_consonants el_scan_bound el_no_empty_key). Qed.

(** kana and unmapped characters pass through unchanged and in order *)
Theorem C19_passthrough : forall s1 s2, forallb (inert el_roman_table el_consonants) s1 = true ->
  R2H (s1 ++ s2) = option_map (app s1) (R2H s2).
Proof. exact (r2h_passthrough_prefix el_roman_table el_consonants el_scan_bound el_no_empty_key). Qed.

(** every hiragana あ..ん (the client's class) is inert, i.e. passes through *)
Theorem C19_kana_inert : forallb (inert el_roman_table el_consonants) (map (fun i => 12353 + N.of_nat i)%N (seq 0 86)) = true.
Proof. vm_compute. reflexivity. Qed.

(** conversion is idempotent on its own output - for every input.  The table facts it rests on (no value is empty; the
    characters of every value, and っ, occur in no key and are no doubling consonant) are computed on the table
    regenerated from chokan.el *)
Lemma el_values_inert : forallb (fun kv => negb (match snd kv with [] => true | _ => false end) && forallb (inert el_roman_table el_consonants) (snd kv)) el_roman_table = true.
Proof. vm_compute. reflexivity. Qed.
Lemma el_sokuon_inert : inert el_roman_table el_consonants SOKUON = true.
Proof. vm_compute. reflexivity. Qed.
Theorem C19_idempotent : forall s out, R2H s = Some out -> R2H out = Some out.
Proof. exact (r2h_idempotent el_roman_table el_consonants el_scan_bound el_no_empty_key el_values_inert el_sokuon_inert). Qed.

(** a doubled consonant becomes っ followed by the remaining consonant *)
Theorem C19_sokuon : forall c rest, mem_chr c el_consonants = true ->
  R2H (c :: c :: rest) = option_map (cons SOKUON) (R2H (c :: rest)).
Proof. exact (r2h_sokuon el_roman_table el_consonants el_scan_bound el_no_empty_key). Qed.

(** which consonants double: at least every consonant that the repository's own original-spelling conversion (kana-alpha, its doubling
    list read from libs/kana-alpha into Gen/KanaTable.v on every run) writes doubled for a sokuon - so whatever that conversion spells
    with a doubled consonant, typed back, starts with っ followed by the remaining consonant *)
Theorem C19_sokuon_class : forallb (fun c => mem_chr c el_consonants) ka_doubling = true.
Proof. vm_compute. reflexivity. Qed.
Theorem C19_sokuon_server_spelling : forall c rest, In c ka_doubling ->
  R2H (c :: c :: rest) = option_map (cons SOKUON) (R2H (c :: rest)).
Proof.
  intros c rest Hin. apply C19_sokuon.
  exact (proj1 (forallb_forall _ _) C19_sokuon_class c Hin).
Qed.

(** hiragana-to-katakana: character-wise; maps every table kana, leaves every other character untouched *)
Theorem C19_kata_app : forall s1 s2, KATA (s1 ++ s2) = KATA s1 ++ KATA s2.
Proof. exact (hira_to_kata_app el_katakana_table). Qed.
Theorem C19_kata_char : forall c, KATA [c] = match assoc_str [c] el_katakana_table with Some v => v | None => [c] end.
Proof. exact (hira_to_kata_char el_katakana_table). Qed.
Theorem C19_kata_table : forallb (fun kv => str_eqb (KATA (fst kv)) (snd kv)) el_katakana_table = true.
Proof. vm_compute. reflexivity. Qed.

Print Assumptions C19_idempotent.
