(** C07 - A registered word becomes convertible, for every kind and every well-formed pair. *)
From Chokan Require Import Base.Str Base.ListUtil Dic.Speech Gen.SpeechNames Dic.ConjRule Gen.ConjTables Dic.Conjugation Dic.ConjProofs
  Kkc.Context Kkc.Lattice Kkc.Score Kkc.Search Kkc.Compose Server.ServerModel Server.ServerProofs Server.ServerProofs2.

(** once the updater has merged the conjugated words of the entry, every form whose reading is spelled in the dictionary
    alphabet is offered for its reading (in the untruncated list: fewer than 100 distinct texts) *)
Theorem C07_registered_convertible : forall s ws w ctx fuel R,
  In w ws -> in_alphabet (s_alpha s) (w_reading w) = true -> w_reading w <> [] -> is_ancillary (w_speech w) = false ->
  fq_ok (ft_freq (s_freq s)) ->
  get_candidates fuel (w_reading w) (eff_dict (merge_words s ws)) ctx (ft_freq (s_freq s)) NCAND = Ok (Some R) -> (length R < NCAND)%nat ->
  In (w_word w) (map cand_text R).
Proof. exact registered_convertible. Qed.

(** registration only adds: every candidate obtainable before remains obtainable *)
Theorem C07_only_adds : forall s ws input ctx fuel fuel' R R',
  fq_ok (ft_freq (s_freq s)) ->
  get_candidates fuel input (eff_dict s) ctx (ft_freq (s_freq s)) NCAND = Ok (Some R) ->
  get_candidates fuel' input (eff_dict (merge_words s ws)) ctx (ft_freq (s_freq s)) NCAND = Ok (Some R') -> (length R' < NCAND)%nat ->
  forall t, In t (map cand_text R) -> In t (map cand_text R').
Proof. exact registration_only_adds. Qed.

(** the acknowledged registration is applied: an accepted RegisterWord queues exactly its entry, and the updater's
    step merges exactly the conjugation of the queue's head (entries are conjugable by the invariant, C05) *)
Theorem C07_register_then_apply : forall fuel base s proper reading w s1 r1,
  step_f fuel base s (RegisterNoun proper reading w) = Ok (s1, r1) -> r1 = RUnit ->
  s_queue s1 = s_queue s ++ [noun_entry proper reading w].
Proof.
  intros fuel base s proper reading w s1 r1. cbn [step_f]. destruct (negb _); intros H Hr; inversion H; subst; [discriminate|reflexivity].
Qed.

(** for the guessing kind the stem that precedes ない is among the conjugated forms of every guessable class *)
Theorem C07_guess_forms : guessed_stem_form_ok = true.
Proof. exact guessed_stem_form_ok_true. Qed.

(** the speeches registration can produce are all independent (never ancillary), so the offer clause applies *)
Theorem C07_registered_independent : forall w, is_ancillary (fst (guess w)) = false.
Proof.
  intro w. unfold guess. destruct (ends_with [NA; II] w && (3 <=? length w)%nat).
  - destruct (guess_form _) as [[c row]|]; [reflexivity|]. destruct (ends_with [II] w); [reflexivity|]. destruct (ends_with [DA] w); reflexivity.
  - destruct (ends_with [II] w); [reflexivity|]. destruct (ends_with [DA] w); reflexivity.
Qed.

(** "within bounded time" while other clients are converting: the updater and the handlers extracted from the server source
    take their mutexes in one rank order, so no interleaving is a deadlock (C14's theorem on this run's protocol) *)
From Chokan Require Server.Protocol Gen.Protocol Server.ConcModel Server.ConcProofs Props.C14.
Theorem C07_no_deadlock : forall ts, ConcModel.reach C14.handler_progs C14.task_progs ts ->
  (exists i t, nth_error ts i = Some t /\ ConcModel.finished t = false) -> exists i, ConcModel.enabled ts i = true.
Proof. exact C14.C14_no_deadlock. Qed.
Print Assumptions C07_no_deadlock.
