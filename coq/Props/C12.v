(** C12 - Conjugation keeps stem and okurigana aligned; every guessable speech conjugates.
    Statements only; proofs in Dic/ConjProofs.v.  Tables: Gen/ConjTables.v (regenerated from speech.rs);
    row / euphonic / core-form vocabulary: Dic/Gojuon.v (hand-written specification). *)
From Chokan Require Import Base.Str Dic.Speech Dic.ConjRule Gen.ConjTables Dic.Conjugation Dic.Gojuon Dic.ConjProofs.

(** each generated word is stem ++ okuri with reading stem_reading ++ okuri, same okurigana on both sides *)
Theorem C12_aligned : forall sp r stem sr forms, speech_rule sp = Some r -> is_kahen r = false ->
  to_forms sp stem sr = Ok forms ->
  forall w rd, In (w, rd) forms -> exists ok, In ok (rule_okuris r) /\ w = stem ++ ok /\ rd = sr ++ ok.
Proof. intros sp r stem sr forms Hr Hk Hf. unfold to_forms in Hf. rewrite Hr in Hf. exact (apply_rule_aligned r stem sr forms Hk Hf). Qed.

(** the k-irregular verb replaces the reading's last kana *)
Theorem C12_aligned_kahen : forall sp l stem sr forms, speech_rule sp = Some (OKaHen l) ->
  to_forms sp stem sr = Ok forms ->
  sr <> [] /\ forall w rd, In (w, rd) forms -> exists v, In v l /\ w = stem ++ tl v /\ rd = removelast sr ++ v.
Proof. intros sp l stem sr forms Hr Hf. unfold to_forms in Hf. rewrite Hr in Hf. exact (apply_rule_kahen l stem sr forms Hf). Qed.

(** conjugation of a supported speech never panics (the k-irregular verb needs a non-empty reading) *)
Theorem C12_total : forall sp r stem sr, speech_rule sp = Some r -> (is_kahen r = true -> sr <> []) ->
  exists forms, to_forms sp stem sr = Ok forms.
Proof. intros sp r stem sr Hr Hk. unfold to_forms. rewrite Hr. exact (apply_rule_total r stem sr Hk). Qed.

(** okurigana start in the verb's own row or are a euphonic variant - for every row of the table *)
Theorem C12_row : forall c row r ok, lookup_rule verb_table c row = Some r -> In ok (rule_okuris r) ->
  okuri_in_row c row ok = true.
Proof. exact row_okuri. Qed.

(** the core forms of the conjugation class are present - for every row of the table *)
Theorem C12_core_forms : forall c row r, lookup_rule verb_table c row = Some r -> rule_core c row r = true.
Proof. exact core_forms. Qed.

(** every class the guesser can return, for ANY character, has a conjugation row *)
Theorem C12_guess_conjugable : forall ch c row, guess_form ch = Some (c, row) -> conjugable (Verb c row) = true.
Proof. exact guess_conjugable. Qed.

Theorem C12_guess_speech_conjugable : forall word, conjugable (fst (guess word)) = true.
Proof. exact guess_speech_conjugable. Qed.

(** guessing accepts every well-formed reading/word pair *)
Theorem C12_guess_accepts : forall word stem suf sr,
  guess word = (fst (guess word), stem) -> word = stem ++ suf ->
  new_guessed (sr ++ suf) word = Ok {| e_reading := sr; e_stem := stem; e_speech := fst (guess word) |}.
Proof. exact new_guessed_accepts. Qed.

(** the form that precedes ない is among the conjugated forms of every guessable class *)
Theorem C12_guessed_stem_form : guessed_stem_form_ok = true.
Proof. exact guessed_stem_form_ok_true. Qed.

(** non-vacuity: 食べない / たべない *)
Example C12_nonvacuous :
  new_guessed [12383; 12409; 12394; 12356]%N [39135; 12409; 12394; 12356]%N
  = Ok {| e_reading := [12383]%N; e_stem := [39135]%N; e_speech := Verb SimoIchidan 12496%N |}.
Proof. vm_compute. reflexivity. Qed.
