(** C15 - An acknowledged conversion can always be confirmed; no learning is silently lost. *)
From Chokan Require Import Base.ListUtil Server.Protocol Gen.Protocol Server.ConcModel Server.ConcProofs.

Definition conversion_progs : list (list op) :=
  map snd (filter (fun h => match fst h with HGetCandidates | HGetProperCandidates => true | _ => false end) p_handlers).

(** in both conversion handlers the session is inserted into the store before the response leaves *)
Theorem C15_insert_before_respond : forallb (insert_before_respond false) conversion_progs = true /\ length conversion_progs = 2%nat.
Proof. vm_compute. split; reflexivity. Qed.

(** hence, in every execution, at the moment a conversion responds its session is already stored: a confirmation that the
    client sends after receiving the response finds it (whatever the interleaving with other threads: the store is only
    changed under its mutex, and nothing but a confirmation of this very session removes it) *)
Theorem C15_responded_implies_stored : forall p pre post, In p conversion_progs -> p = pre ++ Respond :: post -> In StoreInsert pre.
Proof.
  intros p pre post Hp E. destruct C15_insert_before_respond as [H _]. rewrite forallb_forall in H.
  destruct (insert_before_respond_prefix p false (H p Hp) pre post E) as [Hc|Hc]; [discriminate|exact Hc].
Qed.

(** as it was before the repair: the handler only SENT the session to a recorder task and responded (finding F5) *)
Definition old_conversion : list op := [Acq MDict; Acq MPref; ReadDictFreq; Rel MPref; Rel MDict; SendOther; Respond].
Theorem C15_send_then_respond_refuted : insert_before_respond false old_conversion = false.
Proof. reflexivity. Qed.

(** an acknowledged registration is applied exactly once: it is sent on the entry channel before the response, and the
    single updater task consumes the channel in order (mpsc FIFO, trusted) *)
Fixpoint send_before_respond (sent : bool) (p : list op) : bool :=
  match p with [] => true | SendEntry :: p' => send_before_respond true p' | Respond :: p' => sent && send_before_respond sent p' | _ :: p' => send_before_respond sent p' end.
Theorem C15_registration_sent_before_ack :
  forallb (fun h => match fst h with HRegisterWord => send_before_respond false (snd h) | _ => true end) p_handlers = true.
Proof. vm_compute. reflexivity. Qed.
Theorem C15_single_consumer : length (filter (fun t => existsb (fun o => match o with CommitWord => true | _ => false end) (snd t)) p_tasks) = 1%nat.
Proof. vm_compute. reflexivity. Qed.

(** sequential model: the session a conversion issues is in the store when the conversion returns, and it stays there - whatever
    else is converted, confirmed, registered or applied, and however many sessions pile up - until it is itself confirmed or the
    server restarts: there is no eviction *)
From Chokan Require Server.ServerModel Server.SessionProofs.
Theorem C15_conversion_stores_session : forall fuel base s input ctx s' k texts,
  ServerModel.step_f fuel base s (ServerModel.GetCandidates input ctx) = Str.Ok (s', ServerModel.RCands k texts) ->
  exists x, In x (ServerModel.s_sessions s') /\ ServerModel.ss_id x = k /\ ServerModel.ss_ctx x = ctx /\ map Search.cand_text (ServerModel.ss_cands x) = texts.
Proof. exact SessionProofs.conversion_stores_session. Qed.
Theorem C15_session_survives : forall base rs s fin resps x, ServerModel.run base s rs = Str.Ok (fin, resps) -> In x (ServerModel.s_sessions s) ->
  (forall r, In r rs -> ~ SessionProofs.touches r (ServerModel.ss_id x)) -> In x (ServerModel.s_sessions fin).
Proof. exact SessionProofs.session_survives. Qed.
Print Assumptions C15_conversion_stores_session.
Print Assumptions C15_session_survives.
