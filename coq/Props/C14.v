(** C14 - Concurrent clients never deadlock and see sequentially explainable states. *)
From Chokan Require Import Base.ListUtil Server.Protocol Gen.Protocol Server.ConcModel Server.ConcProofs Server.ConcAtomic.

Definition rank (m : mutex) : nat := match m with MDict => 0 | MStore => 1 | MPref => 2 end.
Definition handler_progs : list (list op) := map snd p_handlers.
Definition task_progs : list (list op) := map (fun t => snd t) p_tasks.

(** every handler and every background task, as extracted from the source, acquires its mutexes in rank order,
    never re-acquires one, and ends holding nothing *)
Theorem C14_protocol_ranked : forallb (prog_ok rank []) handler_progs = true /\ forallb (prog_ok rank []) task_progs = true.
Proof. vm_compute. split; reflexivity. Qed.

(** with any number of clients issuing any requests at any time, interleaved in any way with the background tasks:
    whenever some thread has not finished, some thread can take a step - there is no deadlock *)
Theorem C14_no_deadlock : forall ts, reach handler_progs task_progs ts ->
  (exists i t, nth_error ts i = Some t /\ finished t = false) -> exists i, enabled ts i = true.
Proof. exact (no_deadlock rank handler_progs task_progs (proj1 C14_protocol_ranked) (proj2 C14_protocol_ranked)). Qed.

(** every access to shared data happens under its mutex; a conversion reads the dictionary and the learned counts
    while holding both mutexes (one atomic read); tasks wait for work or sleep holding nothing *)
Theorem C14_reads_and_commits_atomic : forallb (read_atomic []) handler_progs = true /\ forallb (read_atomic []) task_progs = true.
Proof. vm_compute. split; reflexivity. Qed.

(** sequential explainability, semantically: in EVERY reachable configuration a thread about to read or commit shared data
    holds the mutexes guarding it and no other thread holds any of them ... *)
Theorem C14_guarded_exclusive : forall ts j t o r m, reach handler_progs task_progs ts -> nth_error ts j = Some t -> th_rest t = o :: r -> In m (guards o) ->
  holds (th_held t) m = true /\ forall i t', i <> j -> nth_error ts i = Some t' -> holds (th_held t') m = false.
Proof.
  exact (guarded_exclusive rank handler_progs task_progs (proj1 C14_protocol_ranked) (proj2 C14_protocol_ranked)
           (proj1 C14_reads_and_commits_atomic) (proj2 C14_reads_and_commits_atomic)).
Qed.

(** ... so while a conversion is at its read of dictionary + learned counts, no other thread is at a read or a commit of
    either: the read is one atomic snapshot (its linearisation point), lying between the commits that precede it and those
    that follow it; commits guarded by the same mutex are totally ordered *)
Theorem C14_read_is_snapshot : forall ts i ti r j tj o r', reach handler_progs task_progs ts -> i <> j ->
  nth_error ts i = Some ti -> th_rest ti = ReadDictFreq :: r -> nth_error ts j = Some tj -> th_rest tj = o :: r' ->
  ~ In MDict (guards o) /\ ~ In MPref (guards o).
Proof.
  exact (read_is_snapshot rank handler_progs task_progs (proj1 C14_protocol_ranked) (proj2 C14_protocol_ranked)
           (proj1 C14_reads_and_commits_atomic) (proj2 C14_reads_and_commits_atomic)).
Qed.

(** a confirmation pops its session (exclusively, by C14_guarded_exclusive) before it commits a count or learns a compound:
    two confirmations of one session, however they overlap, learn once *)
Theorem C14_confirm_consumes_first : forallb (pop_before_commit false) handler_progs = true.
Proof. vm_compute. reflexivity. Qed.

(** a registered entry is never half-visible: all its conjugated forms are merged inside one dictionary section *)
Theorem C14_entry_atomic : forallb (one_section false) task_progs = true.
Proof. vm_compute. reflexivity. Qed.

Print Assumptions C14_guarded_exclusive.
Print Assumptions C14_read_is_snapshot.

Print Assumptions C14_confirm_consumes_first.
