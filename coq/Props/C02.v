(** C02 - The n-best search returns exactly the n best distinct texts of the lattice.
    Statements only; proofs live in Kkc/HeapProofs.v, Kkc/ForwardProofs.v, Kkc/SearchProofs.v. *)
From Chokan Require Import Base.Str Base.ListUtil Dic.Speech Gen.SpeechNames Kkc.Context Gen.ScoreTables
  Kkc.Lattice Kkc.Score Kkc.Heap Kkc.Search Kkc.Paths Kkc.HeapProofs Kkc.ForwardProofs Kkc.SearchProofs.
Local Open Scope Z_scope.

Definition freq_ok (f : freq) : Prop := forall c w, 0 <= freq_of f c w.
Definition dummy_cand : cand := {| c_chain := []; c_score := 0; c_prio := 0 |}.

(** the exhaustive enumeration is exactly the set of complete chains *)
Theorem C02_all_paths_complete : forall g ch, graph_wf g -> (In ch (all_paths g) <-> complete_chain g ch).
Proof. exact all_paths_complete. Qed.
Print Assumptions C02_all_paths_complete.

(** the forward (Viterbi) scores are exact.
    Vocabulary (Kkc/ForwardProofs.v):
    - [node_in g v]: [v] is stored somewhere in [g];
    - [prefix_to g l p]: [l = PBos :: .. :: p] where each element is one of the [previous_nodes] of the
      next ([prefix_bos : prefix_to g [PBos] PBos], [prefix_step : prefix_to g l p -> In p (previous_nodes g q)
      -> prefix_to g (l ++ [q]) q]); its score is [chain_score ctx f l], i.e. the sum, with the engine's [sadd],
      of the edge score into and the node score of every element after BOS;
    - [sval z := z = NON_CONNECT \/ 0 <= z] (every [chain_score] is such a value).
    After [forward_dp] the score stored in every node [v] is an upper bound of the scores of all
    BOS-to-[v] prefixes, it is attained by some prefix whenever it is non-negative, and otherwise it is
    exactly [NON_CONNECT] (no connectable prefix, or no prefix at all): it is the maximum. *)
Theorem C02_forward_exact : forall ctx f g0, graph_wf g0 ->
  let g := forward_dp ctx f g0 in
  forall v, node_in g v ->
    sval (n_score v)
    /\ (forall l, prefix_to g l (PNode v) -> chain_score ctx f l <= n_score v)
    /\ (0 <= n_score v -> exists l, prefix_to g l (PNode v) /\ chain_score ctx f l = n_score v).
Proof. exact forward_exact. Qed.
Print Assumptions C02_forward_exact.

(** a complete chain is a prefix up to any of its nodes followed by the rest, and its score splits accordingly *)
Theorem C02_prefix_split : forall ctx f g pre h rest,
  complete_chain g (pre ++ h :: rest) ->
  prefix_to g (pre ++ [h]) h
  /\ chain_score ctx f (pre ++ h :: rest) = sadd (chain_score ctx f (pre ++ [h])) (chain_score ctx f (h :: rest)).
Proof. exact prefix_split. Qed.
Print Assumptions C02_prefix_split.

(** the n-best search: at most n entries, pairwise distinct texts, non-increasing priority, every entry a
    complete path of the lattice whose priority is its path score, non-negative (connectable) and the best
    score of any path with that text; and every connectable path's text is in the list unless the list is
    full and the path scores no better than its last entry *)
Theorem C02_nbest : forall ctx f g0 n fuel R,
  graph_wf g0 -> freq_ok f -> (1 <= n)%nat ->
  let g := forward_dp ctx f g0 in
  n_best fuel ctx f g n = Some R ->
  (length R <= n)%nat
  /\ NoDup (map cand_text R)
  /\ sorted_desc (map c_prio R)
  /\ (forall r, In r R ->
        In (c_chain r) (all_paths g) /\ cand_text r = chain_text (c_chain r)
        /\ c_prio r = chain_score ctx f (c_chain r) /\ 0 <= c_prio r
        /\ (forall p, In p (all_paths g) -> chain_text p = cand_text r -> chain_score ctx f p <= c_prio r))
  /\ (forall p, In p (all_paths g) -> connectable ctx f p ->
        In (chain_text p) (map cand_text R)
        \/ (length R = n /\ chain_score ctx f p <= c_prio (last R dummy_cand))).
Proof. exact nbest_correct. Qed.
Print Assumptions C02_nbest.

(** the search never runs out of fuel when given enough *)
Theorem C02_fuel : forall ctx f g0 n, graph_wf g0 -> freq_ok f ->
  exists fuel0, forall fuel, (fuel0 <= fuel)%nat -> n_best fuel ctx f (forward_dp ctx f g0) n <> None.
Proof. exact nbest_fuel. Qed.
Print Assumptions C02_fuel.

(** the priority queue underneath: the replica of std's BinaryHeap pops a maximal element *)
Theorem C02_heap_pop : forall (d : list cand) x d', heap_ordered c_prio d -> heap_pop c_prio d = Some (x, d') ->
  Permutation.Permutation d (x :: d') /\ (forall y, In y d -> c_prio y <= c_prio x) /\ heap_ordered c_prio d'.
Proof. exact (heap_pop_spec c_prio). Qed.
Print Assumptions C02_heap_pop.

(** non-vacuity: a two-character lattice with 7 complete paths, 5 distinct texts, two texts reachable by
    two paths each, and ties (4,4 and 1,1,1); with n = 3 the list is full and the two texts left out
    score exactly as much as the last entry *)
Definition ex_word (w r : str) (sp : speech) : nkind := KWord {| w_word := w; w_reading := r; w_speech := sp |}.
Definition ex_node (e s : nat) (k : nkind) : lnode := {| n_end := e; n_slot := s; n_kind := k; n_score := 0 |}.
Definition ex_g0 : graph :=
  [ [ ex_node 0 0 (ex_word [88%N] [97%N] (Noun NCommon));
      ex_node 0 1 (ex_word [89%N] [97%N] (Noun NCommon));
      ex_node 0 2 (ex_word [88%N] [97%N] (Verb Godan 1%N)) ];
    [ ex_node 1 0 (ex_word [90%N] [98%N] (Particle PCase));
      ex_node 1 1 (ex_word [87%N] [97%N; 98%N] (Noun NCommon));
      ex_node 1 2 (KVirtual [98%N]) ] ].
Definition ex_f : freq := [(CNormal, [88%N], 3)].

Example C02_nonvacuous :
  graph_wf ex_g0 /\ freq_ok ex_f
  /\ map (fun p => (chain_text p, chain_score CNormal ex_f p)) (all_paths (forward_dp CNormal ex_f ex_g0))
     = [([88%N; 90%N], 4); ([89%N; 90%N], 1); ([88%N; 90%N], NON_CONNECT); ([87%N], 1);
        ([88%N; 98%N], 4); ([89%N; 98%N], 1); ([88%N; 98%N], 4)]
  /\ option_map (map (fun c => (cand_text c, c_prio c))) (n_best 100 CNormal ex_f (forward_dp CNormal ex_f ex_g0) 3)
     = Some [([88%N; 90%N], 4); ([88%N; 98%N], 4); ([89%N; 98%N], 1)]
  /\ option_map (map (fun c => (cand_text c, c_prio c))) (n_best 100 CNormal ex_f (forward_dp CNormal ex_f ex_g0) 10)
     = Some [([88%N; 90%N], 4); ([88%N; 98%N], 4); ([89%N; 98%N], 1); ([89%N; 90%N], 1); ([87%N], 1)].
Proof.
  split; [apply graph_wf_b_sound; vm_compute; reflexivity|].
  split; [intros c w; apply freq_ok_b_sound; vm_compute; reflexivity|].
  vm_compute. repeat split; reflexivity.
Qed.
