(** C16 - Conversion context changes only what it is documented to change. *)
From Chokan Require Import Base.Str Base.ListUtil Dic.Speech Gen.SpeechNames Kkc.Context Gen.ScoreTables
  Kkc.Lattice Kkc.Score Kkc.Heap Kkc.Search Kkc.Paths Kkc.ForwardProofs Kkc.LatticePaths Kkc.LatticeMono
  Kkc.ContextProofs Kkc.Compose Kkc.Compose2.
From Chokan Require Props.C02 Props.Lattice.
From Coq Require Import Lia.
Local Open Scope Z_scope.

(** proper-noun priority mode builds exactly the lattice of normal mode *)
Theorem C16_proper_same_lattice : forall input d, from_input input d CProper = from_input input d CNormal.
Proof. exact Props.Lattice.L_proper_same_lattice. Qed.

(** every edge score is identical in the two modes *)
Theorem C16_proper_same_edges : forall p q, edge_score CProper p q = edge_score CNormal p q.
Proof. exact edge_score_proper. Qed.

(** every path keeps its connectability and differs by one fixed positive bonus per proper noun
    (learned counts are keyed by context: [same_counts] compares like with like) *)
Theorem C16_proper_bonus : forall f ch, fq_ok f -> same_counts f CProper CNormal ->
  (0 <= chain_score CNormal f ch <-> 0 <= chain_score CProper f ch) /\
  (0 <= chain_score CNormal f ch -> chain_score CProper f ch = chain_score CNormal f ch + PROPER_BONUS * count_proper ch) /\
  0 < PROPER_BONUS.
Proof. intros f ch Hf Hs. destruct (proper_bonus f ch Hf Hs) as [H1 H2]. split; [exact H1|]. split; [exact H2|reflexivity]. Qed.

Lemma dict_le_refl d : dict_le d d.
Proof. split; apply incl_refl. Qed.

Lemma ctx_le_proper_normal : ctx_le CProper CNormal.
Proof. intros sp. destruct sp as [| | | | | | | | | | |[]]; cbn; auto. Qed.

(** proper-noun mode returns the same (untruncated) candidate set as normal mode, whatever each context has learned *)
Theorem C16_proper_same_set : forall input d f f' n n' fuel fuel' R R',
  fq_ok f -> fq_ok f' -> (1 <= n)%nat -> (1 <= n')%nat ->
  get_candidates fuel input d CNormal f n = Ok (Some R) -> (length R < n)%nat ->
  get_candidates fuel' input d CProper f' n' = Ok (Some R') -> (length R' < n')%nat ->
  forall t, In t (map cand_text R) <-> In t (map cand_text R').
Proof.
  intros input d f f' n n' fuel fuel' R R' Hf Hf' Hn Hn' HR Hl HR' Hl' t. split.
  - eapply texts_subset; [apply dict_le_refl|apply ctx_le_normal|exact Hf|exact Hf'|exact Hn|exact Hn'|exact HR|exact HR'|exact Hl'].
  - eapply texts_subset; [apply dict_le_refl|apply ctx_le_proper_normal|exact Hf'|exact Hf|exact Hn'|exact Hn|exact HR'|exact HR|exact Hl].
Qed.

(** foreign-word and numeral contexts (indeed every context) only ADD candidates to the normal set *)
Theorem C16_adds_only : forall input d ctx f f' n n' fuel fuel' R R',
  fq_ok f -> fq_ok f' -> (1 <= n)%nat -> (1 <= n')%nat ->
  get_candidates fuel input d CNormal f n = Ok (Some R) ->
  get_candidates fuel' input d ctx f' n' = Ok (Some R') -> (length R' < n')%nat ->
  forall t, In t (map cand_text R) -> In t (map cand_text R').
Proof.
  intros input d ctx f f' n n' fuel fuel' R R' Hf Hf' Hn Hn' HR HR' Hl'.
  eapply texts_subset; [apply dict_le_refl|apply ctx_le_normal|exact Hf|exact Hf'|exact Hn|exact Hn'|exact HR|exact HR'|exact Hl'].
Qed.

(** in no context does a result begin with a particle or an auxiliary verb taken from the ancillary dictionary:
    the first part is a standard-dictionary word or an ancillary word allowed to head the lattice, and those are
    never particles or auxiliary verbs *)
Theorem C16_no_ancillary_head : forall input d ctx f n fuel R c nd rest w,
  (1 <= n)%nat -> fq_ok f -> get_candidates fuel input d ctx f n = Ok (Some R) ->
  In c R -> c_chain c = PBos :: PNode nd :: rest -> n_kind nd = KWord w ->
  In w (d_std d) \/ (In w (d_anc d) /\ (forall t, w_speech w <> Particle t) /\ w_speech w <> AuxiliaryVerb).
Proof.
  intros input d ctx f n fuel R c nd rest w Hn Hf HR Hc Hch Hk.
  destruct (result_is_path fuel input d ctx f n R Hn Hf HR) as (g & Hg & Hwf & Hall).
  destruct (Hall c Hc) as (Hcc & _). rewrite Hch in Hcc.
  destruct (Props.Lattice.L_head_part input d ctx g (forward_dp ctx f g) nd rest w Hg (forward_dp_same_shape ctx f g) Hcc Hk) as [H|[H1 H2]];
    [left; exact H|right; split; [exact H1|apply (Props.Lattice.L_head_mergeable_not_particle ctx); exact H2]].
Qed.

(** FULL STATEMENT (not true of the code): "the candidates a foreign-word context adds begin with a suffix".
    Refuted: with prefix 新/しん, suffix 心/しん sharing a reading and the particle は, the input しんは gets
    the candidate 新は in foreign-word context only, and it begins with a PREFIX.  (finding F10) *)
Definition f10_dict : dict :=
  {| d_std := [];
     d_anc := [ {| w_word := [26032]; w_reading := [12375; 12435]; w_speech := Affix APrefix |};
                {| w_word := [24515]; w_reading := [12375; 12435]; w_speech := Affix ASuffix |};
                {| w_word := [12399]; w_reading := [12399]; w_speech := Particle PAdverbial |} ]%N |}.
Definition f10_input : str := [12375; 12435; 12399]%N.
Definition first_speech (c : cand) : option speech :=
  match c_chain c with
  | PBos :: PNode n :: _ => match n_kind n with KWord w => Some (w_speech w) | KVirtual _ => None end
  | _ => None
  end.

Theorem C16_added_begin_with_suffix_refuted :
  exists R R', get_candidates 1000 f10_input f10_dict CNormal [] 100 = Ok (Some R)
            /\ get_candidates 1000 f10_input f10_dict CForeignWord [] 100 = Ok (Some R')
            /\ exists c, In c R' /\ ~ In (cand_text c) (map cand_text R) /\ first_speech c = Some (Affix APrefix).
Proof.
  eexists. eexists. split; [vm_compute; reflexivity|]. split; [vm_compute; reflexivity|].
  eexists. split; [left; reflexivity|]. split; [vm_compute; tauto|vm_compute; reflexivity].
Qed.
