(** C01 - Every candidate re-reads to exactly the input; only a leading run is converted.
    Composition of Props/Lattice.v (every complete chain of the lattice tiles the input) with Props/C02.v
    (every returned candidate is a complete chain). *)
From Chokan Require Import Base.Str Base.ListUtil Dic.Speech Gen.SpeechNames Kkc.Context Gen.ScoreTables
  Kkc.Lattice Kkc.Score Kkc.Heap Kkc.Search Kkc.Paths Kkc.Compose.
From Chokan Require Props.C02 Props.Lattice.
Local Open Scope Z_scope.

(** lattice construction never panics, for any input (the empty input included) and any dictionary *)
Theorem C01_from_input_total : forall input d ctx,
  exists g, from_input input d ctx = Ok g /\ length g = length input /\ graph_wf g.
Proof. exact Props.Lattice.L_from_input_total. Qed.

(** every returned candidate is a left-to-right tiling of the whole input: the kana covered by its parts,
    concatenated, equal the input; its text is the concatenation of the parts' written forms; the parts are
    dictionary words followed by nothing or by exactly one verbatim tail ([c01_ok], Kkc/Paths.v) *)
Theorem C01_tiling : forall input d ctx f n fuel R,
  input <> [] -> (1 <= n)%nat -> fq_ok f ->
  get_candidates fuel input d ctx f n = Ok (Some R) ->
  forall c, In c R -> c01_ok input (c_chain c) (cand_text c) = true.
Proof.
  intros input d ctx f n fuel R Hne Hn Hf H c Hc.
  destruct (result_is_path fuel input d ctx f n R Hn Hf H) as (g & Hg & Hwf & Hall).
  destruct (Hall c Hc) as (Hch & Htext & _).
  rewrite Htext. eapply Props.Lattice.L_chain_tiles; [exact Hne|exact Hg|apply forward_dp_same_shape|exact Hch].
Qed.

(** the search terminates: enough fuel always exists *)
Theorem C01_search_terminates : forall input d ctx f n, fq_ok f ->
  exists fuel0, forall fuel, (fuel0 <= fuel)%nat -> exists R, get_candidates fuel input d ctx f n = Ok (Some R).
Proof.
  intros input d ctx f n Hf. destruct (Props.Lattice.L_from_input_total input d ctx) as (g & Hg & _ & Hwf).
  destruct (Props.C02.C02_fuel ctx f g n Hwf Hf) as (fuel0 & Hfuel). exists fuel0. intros fuel Hle.
  unfold get_candidates. rewrite Hg. cbn [obind]. specialize (Hfuel fuel Hle).
  destruct (n_best fuel ctx f (forward_dp ctx f g) n) as [R|]; [exists R; reflexivity|congruence].
Qed.

(** non-vacuity: the test dictionary of the repository on くるまで *)
Definition ex_d : dict :=
  {| d_std := [ {| w_word := [36554]; w_reading := [12367; 12427; 12414]; w_speech := Noun NCommon |};
                {| w_word := [26469; 12427]; w_reading := [12367; 12427]; w_speech := Verb Hen 12459 |} ]%N;
     d_anc := [ {| w_word := [12414; 12391]; w_reading := [12414; 12391]; w_speech := Particle PAdverbial |};
                {| w_word := [12391]; w_reading := [12391]; w_speech := Particle PCase |} ]%N |}.
Example C01_nonvacuous :
  match get_candidates 1000 [12367; 12427; 12414; 12391]%N ex_d CNormal [] 10 with
  | Ok (Some R) => map cand_text R = [[36554; 12391]; [26469; 12427; 12414; 12391]]%N
                   /\ forallb (fun c => c01_ok [12367; 12427; 12414; 12391]%N (c_chain c) (cand_text c)) R = true
  | _ => False
  end.
Proof. vm_compute. split; reflexivity. Qed.
