(** C09 - A crash at any instant of a save never destroys or disables the user's data. *)
From Chokan Require Import Base.Str Base.ListUtil Server.Protocol Gen.Protocol Server.CrashModel Server.CrashProofs.

(** the save as extracted from user_pref.rs follows the rename discipline ... *)
Theorem C09_save_disciplined : discipline TNone TNone p_save = true.
Proof. vm_compute. reflexivity. Qed.

(** ... hence, for arbitrary old files and arbitrary new contents, in EVERY state a process death can leave (before any
    operation, inside any write after any number of bytes), frequency.bin and user.dic are each either exactly
    the previously saved version or exactly the newly saved one *)
Theorem C09_crash_safe : forall newfreq newdic old c,
  In c (crash_states newfreq newdic old p_save) -> fin_ok newfreq newdic old c.
Proof. intros nf nd s0 c Hc. exact (crash_safe_from_start nf nd s0 p_save C09_save_disciplined c Hc). Qed.

(** the generic statement for any save program *)
Theorem C09_generic : forall nf nd s0 prog, discipline TNone TNone prog = true ->
  forall c, In c (crash_states nf nd s0 prog) -> fin_ok nf nd s0 c.
Proof. exact crash_safe_from_start. Qed.

(** the save as it was before the repair (truncate in place) is refuted: dying right after the create leaves an empty
    frequency.bin, neither the old nor the new version (finding F6) *)
Definition old_save : list fop := [FCreate FinFreq; FWrite FinFreq; FCreate FinDic; FWrite FinDic].
Theorem C09_in_place_save_refuted :
  exists c, In c (crash_states [1; 2; 3]%N [4]%N (fun f => match f with FinFreq => Some [9; 9]%N | FinDic => Some [8]%N | _ => None end) old_save)
            /\ c FinFreq = Some [] /\ discipline TNone TNone old_save = false.
Proof.
  eexists. split; [right; left; reflexivity|]. split; reflexivity.
Qed.
