(** C06 - A confirmation updates exactly one learned count, and learning only re-ranks. *)
From Chokan Require Import Base.Str Base.ListUtil Dic.Speech Kkc.Context Kkc.Lattice Kkc.Score Kkc.Search Kkc.Paths Kkc.Compose
  Server.ServerModel Server.ServerProofs Server.ServerProofs2.
Local Open Scope Z_scope.

(** confirming a candidate of a live session: its independent word's count in the session's context rises by exactly
    one (1 when new) and is stamped now; every other count is untouched, except that counts not refreshed for more
    than three days are dropped *)
Theorem C06_confirm_exact : forall f c w now, keys_unique f ->
  let f' := ft_expire (ft_bump f c w now) now EXPIRATION in
  ft_get f' c w = Some (match ft_get f c w with Some (n, _) => n + 1 | None => 1 end, now) /\
  (forall c2 w2, (c2, w2) <> (c, w) ->
     ft_get f' c2 w2 = match ft_get f c2 w2 with Some (n, l) => if EXPIRATION <? now - l then None else Some (n, l) | None => None end) /\
  keys_unique f'.
Proof. intros f c w now Hu. apply confirm_exact; [assumption|unfold EXPIRATION; lia]. Qed.

(** unknown or already consumed sessions and unknown candidate ids change nothing *)
Theorem C06_unknown_changes_nothing : forall fuel base s sid cid now s' resp,
  step_f fuel base s (UpdateFrequency sid cid now) = Ok (s', resp) ->
  (sid = None \/ (exists i, sid = Some i /\ (fst (pop_session (s_sessions s) i) = None
                                          \/ exists sess, fst (pop_session (s_sessions s) i) = Some sess /\ find_cand (ss_cands sess) 0 cid = None))) ->
  s_freq s' = s_freq s /\ s_user s' = s_user s /\ s_queue s' = s_queue s.
Proof. exact confirm_unknown_unchanged. Qed.

(** the untruncated candidate set is the same with and without learned data *)
Theorem C06_same_candidate_set : forall input d c f f' n n' fuel fuel' R R',
  fq_ok f -> fq_ok f' -> (1 <= n)%nat -> (1 <= n')%nat ->
  get_candidates fuel input d c f n = Ok (Some R) -> (length R < n)%nat ->
  get_candidates fuel' input d c f' n' = Ok (Some R') -> (length R' < n')%nat ->
  forall t, In t (map cand_text R) <-> In t (map cand_text R').
Proof. exact same_candidate_set. Qed.

(** every path's score rises by count x occurrences of the learned words and stays connectable or not as it was *)
Theorem C06_score_shift : forall ctx f ch, fq_ok f ->
  (0 <= chain_score ctx [] ch <-> 0 <= chain_score ctx f ch) /\
  (0 <= chain_score ctx [] ch -> chain_score ctx f ch = chain_score ctx [] ch + learned ctx f ch).
Proof. exact score_shift. Qed.

(** counts learned in one context never influence another *)
Theorem C06_context_isolation : forall fuel input d c f f' n, (forall w, freq_of f c w = freq_of f' c w) ->
  get_candidates fuel input d c f n = get_candidates fuel input d c f' n.
Proof. exact context_isolation. Qed.

(** the expiry boundary: exactly three days is kept, one millisecond more is dropped *)
Example C06_expiry_boundary :
  ft_expire [(CNormal, [1%N], (2, 0))] EXPIRATION EXPIRATION = [(CNormal, [1%N], (2, 0))] /\
  ft_expire [(CNormal, [1%N], (2, 0))] (EXPIRATION + 1) EXPIRATION = [].
Proof. vm_compute. split; reflexivity. Qed.
