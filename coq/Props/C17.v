(** C17 - Original-spelling conversion is total, ASCII-only and consistent with the client.
    Tables regenerated from conversion.rs (Gen/KanaTable.v) and chokan.el (Gen/ElispTables.v). *)
From Chokan Require Import Base.Str Base.ListUtil Dic.Conjugation Gen.KanaTable Kana.KanaAlpha Kana.KanaAlphaProofs Gen.ElispTables Kana.Romaji.
Local Open Scope N_scope.

Definition CV : str -> option str := convert ka_table ka_doubling ka_sokuon_spelling.
Definition STEP : str -> str * str := to_roma_sequence ka_table ka_doubling ka_sokuon_spelling.
Definition R2H : str -> option str := r2h el_roman_table el_consonants el_scan_bound.

Lemma ka_nonempty : hira_nonempty ka_table = true. Proof. vm_compute. reflexivity. Qed.
Lemma ka_spell : spellings_ok ka_table ka_doubling ka_sokuon_spelling = true. Proof. vm_compute. reflexivity. Qed.
Lemma ka_cover : kana_covered ka_table = true. Proof. vm_compute. reflexivity. Qed.
Lemma ka_nonascii : kana_nonascii ka_table = true. Proof. vm_compute. reflexivity. Qed.

(** the conversion terminates for every input (any Unicode) *)
Theorem C17_total : forall s, exists r, CV s = Some r.
Proof. exact (convert_total ka_table ka_doubling ka_sokuon_spelling ka_nonempty). Qed.

(** the result is the spelling of the first unit followed by the conversion of the rest: the concatenation of the units' results *)
Theorem C17_units : forall s, s <> [] -> CV s = option_map (app (fst (STEP s))) (CV (snd (STEP s))).
Proof. exact (convert_step ka_table ka_doubling ka_sokuon_spelling ka_nonempty). Qed.

(** a unit taken from the table is a longest match: sokuon run + the longest table kana that starts there *)
Theorem C17_longest_unit : forall s v len,
  pick (filter_map (fun conv => expand_roma ka_doubling ka_sokuon_spelling conv s) (sorted_table ka_table)) = Some (v, len) ->
  (exists e, In e ka_table /\ expand_roma ka_doubling ka_sokuon_spelling e s = Some (v, len)) /\
  (forall e v' len', In e ka_table -> expand_roma ka_doubling ka_sokuon_spelling e s = Some (v', len') -> (len' <= len)%nat).
Proof. exact (step_longest ka_table ka_doubling ka_sokuon_spelling). Qed.

(** on the client's class ([a-zA-Z0-9] and ぁ..ん) the result is lower-case ASCII letters and digits only *)
Theorem C17_ascii_only : forall s r, forallb in_cls s = true -> CV s = Some r -> forallb out_ok r = true.
Proof. exact (convert_ascii_only ka_table ka_doubling ka_sokuon_spelling ka_nonempty ka_spell ka_cover). Qed.

(** ASCII characters stay in place and order, lower-cased *)
Theorem C17_ascii_in_place : forall c s, c <? 128 = true -> CV (c :: s) = option_map (cons (lower c)) (CV s).
Proof. exact (convert_ascii_passthrough ka_table ka_doubling ka_sokuon_spelling ka_nonempty ka_nonascii). Qed.

(** a sokuon doubles the consonant that follows it when the client doubles that consonant, and is spelled out otherwise:
    for every table unit h with spelling a, っh converts to spell_sokuon(first letter of a) ++ a *)
Theorem C17_sokuon_units :
  forallb (fun e => let '(h, k, a) := e in
             match CV (SOKUON_H :: h) with
             | Some r => str_eqb r (spell_sokuon ka_doubling ka_sokuon_spelling (hd_error a) 1 ++ a) || str_eqb h [SOKUON_H]
             | None => false
             end) ka_table = true.
Proof. vm_compute. reflexivity. Qed.

(** the server's doubling consonants are exactly the client's *)
Theorem C17_same_consonants :
  forallb (fun c => mem_chr c el_consonants) ka_doubling && forallb (fun c => mem_chr c ka_doubling) el_consonants = true.
Proof. vm_compute. reflexivity. Qed.

(** every kana unit of the table other than ん is given a spelling that the client's romaji rules turn back into
    exactly that unit, alone and after a sokuon *)
Definition HN : str := [12435].
Theorem C17_client_roundtrip :
  forallb (fun e => let '(h, k, a) := e in
             str_eqb h HN || str_eqb h [SOKUON_H] ||
             (match R2H a with Some r => str_eqb r h | None => false end &&
              match CV (SOKUON_H :: h) with
              | Some a2 => match R2H a2 with Some r => str_eqb r (SOKUON_H :: h) | None => false end
              | None => false
              end)) ka_table = true.
Proof. vm_compute. reflexivity. Qed.
(** (the unit っ itself: alone it is spelled and typed back; "after a sokuon" it is just a longer sokuon run) *)
Theorem C17_client_roundtrip_sokuon :
  match CV [SOKUON_H] with Some a => R2H a = Some [SOKUON_H] | None => False end /\
  match CV [SOKUON_H; SOKUON_H] with Some a => R2H a = Some [SOKUON_H; SOKUON_H] | None => False end.
Proof. vm_compute. split; reflexivity. Qed.

(** non-vacuity / regression examples: あっt, っ, しゃいん *)
Example C17_examples :
  CV [12354; 12387; 116] = Some [97; 116; 116] /\ CV [12387] = Some [120; 116; 117] /\
  CV [12375; 12419; 12356; 12435] = Some [115; 121; 97; 105; 110] /\
  forallb in_cls [12354; 12387; 116] = true.
Proof. vm_compute. repeat split; reflexivity. Qed.
