(** C11 - The dictionary builder loses no accepted word and invents none. *)
From Chokan Require Import Base.Str Base.ListUtil Dic.Speech Dic.TextFormat Dic.Conjugation Dic.BuilderModel Dic.BuilderProofs.

Theorem C11_no_loss : forall alpha src b, build alpha src = Ok b -> forall e fs w,
  In e (read_all src) -> conjugate e = Ok fs -> In w fs -> in_alpha alpha (w_reading w) = true -> In w (b_lookup b (w_reading w)).
Proof. exact no_loss. Qed.

Theorem C11_no_invention : forall alpha src b, build alpha src = Ok b -> forall key w, In w (b_lookup b key) ->
  w_reading w = key /\ exists e fs, In e (read_all src) /\ conjugate e = Ok fs /\ In w fs.
Proof. exact no_invention. Qed.

(** the tankan dictionary (no trie) and, per reading, the order: words of one reading come out in source order *)
Theorem C11_order : forall alpha src b, build alpha src = Ok b -> forall key ws, all_words (read_all src) = Ok ws ->
  b_lookup_tankan b key = filter (fun w => str_eqb (w_reading w) key) ws.
Proof. exact order_kept. Qed.

(** FULL STATEMENT, not true of the code (known finding F17): "every source the text format accepts is built".
    Witness: the valid line  あ<TAB>亜<TAB>/ア行五段/  (no conjugation row for ア行五段) aborts the whole build. *)
Theorem C11_every_source_builds_refuted :
  exists alpha src, (exists es, read_all src = es /\ es <> []) /\ build alpha src = Panic.
Proof.
  exists [12354%N], [12354; 9; 20124; 9; 47; 12450; 34892; 20116; 27573; 47]%N. split; [eexists; split; [reflexivity|vm_compute; discriminate]|vm_compute; reflexivity].
Qed.
