(** C04 - The double-array trie behaves as an exact set of keys under any insertion history.
    Statements only; proofs live in Trie/TrieAbs.v, TrieOps.v, TrieEdge.v, TrieRebase.v,
    TrieInsert.v, TrieProofs.v.  [alphabet_ok], [key_in_alphabet] and [reachable] are defined
    in Trie/TrieAbs.v:

      Definition alphabet_ok (a : list N) : Prop := NoDup a /\ (1 <= length a <= 254)%nat.
      Definition key_in_alphabet (a : list N) (k : str) : Prop := forall c, In c k -> In c a.
      Inductive reachable (a : list N) : trie -> list str -> Prop :=
      | R_init : reachable a (from_keys a) []
      | R_ok t ks k hints t' : reachable a t ks -> insert t k hints = Ok t' -> reachable a t' (k :: ks)
      | R_err t ks k hints : reachable a t ks -> insert t k hints = Err -> reachable a t ks.

    [reachable a t ks]: t is obtainable from the empty trie over alphabet a by insertions under
    ANY choices of xcheck (the hints); ks = the keys whose insertion was accepted. *)
From Chokan Require Import Base.Str Trie.TrieModel Trie.TrieAbs Trie.TrieProofs.

(** membership is exactly the set of inserted keys *)
Theorem C04_set_semantics : forall a t ks, alphabet_ok a -> reachable a t ks ->
  forall k, member t k = true <-> In k ks.
Proof. exact C04_set_semantics_proof. Qed.
Print Assumptions C04_set_semantics.

(** one accepted insertion adds exactly its key *)
Theorem C04_insert_spec : forall a t ks k hints t', alphabet_ok a -> reachable a t ks -> insert t k hints = Ok t' ->
  forall k', member t' k' = (str_eqb k' k || member t k').
Proof. exact C04_insert_spec_proof. Qed.
Print Assumptions C04_insert_spec.

(** a key is rejected iff it has a character outside the alphabet; such keys are never members *)
Theorem C04_reject : forall a t ks k hints, alphabet_ok a -> reachable a t ks ->
  (insert t k hints = Err <-> ~ key_in_alphabet a k) /\ (~ key_in_alphabet a k -> member t k = false).
Proof. exact C04_reject_proof. Qed.
Print Assumptions C04_reject.

(** canonical choices never hit an expect / assert / index panic *)
Theorem C04_insert_total : forall a t ks k, alphabet_ok a -> reachable a t ks -> key_in_alphabet a k ->
  exists t', insert t k [] = Ok t'.
Proof. exact C04_insert_total_proof. Qed.
Print Assumptions C04_insert_total.

(** the structural invariant evaluated by the correspondence harness holds of every reachable trie *)
Theorem C04_inv : forall a t ks, alphabet_ok a -> reachable a t ks -> inv_b t = true.
Proof. exact C04_inv_proof. Qed.
Print Assumptions C04_inv.

(** stronger totality: under arbitrary hints, an insertion panics only when, along its execution,
    a hint was consulted that [xcheck_admissible] rejects at that point ([bad_hint_somewhere] and
    [hint_bad] are defined in Trie/TrieProofs.v and Trie/TrieInsert.v) *)
Theorem C04_panic_only_bad_hint : forall a t ks k hints, alphabet_ok a -> reachable a t ks ->
  insert t k hints = Panic ->
  exists ls, key_to_labels a k = Some ls /\ bad_hint_somewhere a (t_nodes t) O ls hints.
Proof. exact C04_panic_only_bad_hint_proof. Qed.
Print Assumptions C04_panic_only_bad_hint.

(** * non-vacuity: a concrete reachable trie whose construction relocated nodes *)

Definition ex_alphabet : list N := [1;2;3;4;5;6;7;8;9;10]%N.
Definition ex_keys : list str :=
  [[1;2;3;4];[1;2;3;4;5;6];[1;2;3;4;5;6;7];[1;2;3;4;5;6;8];[1;2;5];[1;2;9;10]]%N.
Definition ex_get (o : outcome trie) : trie := match o with Ok t => t | _ => from_keys [] end.
Definition ex_t0 : trie := from_keys ex_alphabet.
Definition ex_t1 : trie := Eval vm_compute in ex_get (insert ex_t0 (nth 0 ex_keys []) []).
Definition ex_t2 : trie := Eval vm_compute in ex_get (insert ex_t1 (nth 1 ex_keys []) []).
Definition ex_t3 : trie := Eval vm_compute in ex_get (insert ex_t2 (nth 2 ex_keys []) []).
Definition ex_t4 : trie := Eval vm_compute in ex_get (insert ex_t3 (nth 3 ex_keys []) []).
Definition ex_t5 : trie := Eval vm_compute in ex_get (insert ex_t4 (nth 4 ex_keys []) []).
Definition ex_t6 : trie := Eval vm_compute in ex_get (insert ex_t5 (nth 5 ex_keys []) []).

Example C04_nonvacuous :
  alphabet_ok ex_alphabet /\
  reachable ex_alphabet ex_t6 (rev ex_keys) /\
  (* the third insertion moved the node reached by the second key from slot 19 to slot 18 *)
  (reachable ex_alphabet ex_t2 (rev (firstn 2 ex_keys)) /\
   insert ex_t2 (nth 2 ex_keys []) [] = Ok ex_t3 /\
   search ex_t2 (nth 1 ex_keys []) = Some 19%nat /\ search ex_t3 (nth 1 ex_keys []) = Some 18%nat) /\
  map (member ex_t6) ex_keys = [true; true; true; true; true; true] /\
  member ex_t6 [1;2;3]%N = false /\ member ex_t6 [1;2;3;4;5]%N = false /\
  insert ex_t6 [1;11]%N [] = Err.
Proof.
  assert (H1 : reachable ex_alphabet ex_t1 (rev (firstn 1 ex_keys))).
  { apply (R_ok _ ex_t0 [] _ []); [apply R_init|vm_compute; reflexivity]. }
  assert (H2 : reachable ex_alphabet ex_t2 (rev (firstn 2 ex_keys))).
  { apply (R_ok _ ex_t1 _ _ []); [exact H1|vm_compute; reflexivity]. }
  assert (H3 : reachable ex_alphabet ex_t3 (rev (firstn 3 ex_keys))).
  { apply (R_ok _ ex_t2 _ _ []); [exact H2|vm_compute; reflexivity]. }
  assert (H4 : reachable ex_alphabet ex_t4 (rev (firstn 4 ex_keys))).
  { apply (R_ok _ ex_t3 _ _ []); [exact H3|vm_compute; reflexivity]. }
  assert (H5 : reachable ex_alphabet ex_t5 (rev (firstn 5 ex_keys))).
  { apply (R_ok _ ex_t4 _ _ []); [exact H4|vm_compute; reflexivity]. }
  assert (H6 : reachable ex_alphabet ex_t6 (rev ex_keys)).
  { apply (R_ok _ ex_t5 _ _ []); [exact H5|vm_compute; reflexivity]. }
  split.
  { split; [|cbn; lia]. repeat (constructor; [cbn; intuition discriminate|]). constructor. }
  split; [exact H6|].
  split; [split; [exact H2|repeat split; vm_compute; reflexivity]|].
  repeat split; vm_compute; reflexivity.
Qed.
Print Assumptions C04_nonvacuous.
