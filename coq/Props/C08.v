(** C08 - Saved user data restores exactly; a restart does not change any answer. *)
From Chokan Require Import Base.Str Base.ListUtil Dic.Speech Dic.TextFormat Dic.TextFormatProofs Dic.RestoreProofs Dic.Conjugation
  Kkc.Context Kkc.Lattice Kkc.Score Kkc.Search Server.ServerModel Server.ServerProofs Server.ServerProofs2.

(** reading the written user dictionary back yields exactly its printable entries, in order: nothing else appears,
    nothing printable is lost (entries free of TAB / NL / blanks - guaranteed by the server's invariant) *)
Theorem C08_restore_filter : forall es, forallb clean_entry2 es = true -> read_all (write_all es) = filter entry_printable es.
Proof. exact restore_filter. Qed.

(** saving and restoring again is idempotent *)
Theorem C08_idempotent : forall es, forallb clean_entry2 es = true ->
  read_all (write_all (read_all (write_all es))) = read_all (write_all es).
Proof. exact restore_idempotent. Qed.

(** the running server is always in sync with its user dictionary ... *)
Theorem C08_synced_invariant : forall fuel base s r s' resp, wf s -> synced base s -> step_f fuel base s r = Ok (s', resp) -> synced base s'.
Proof. exact synced_step. Qed.

(** ... so a restart reproduces the standard map, its key set, the learned counts (with time stamps) and the user
    dictionary exactly, and with them every later answer in the same order *)
Theorem C08_restart_exact : forall fuel base s s' resp,
  wf s -> synced base s -> forallb entry_printable (s_user s) = true ->
  step_f fuel base s Restart = Ok (s', resp) ->
  s_std s' = s_std s /\ s_keys s' = s_keys s /\ s_anc s' = s_anc s /\ s_tankan s' = s_tankan s /\ s_alpha s' = s_alpha s /\
  s_freq s' = s_freq s /\ s_user s' = s_user s /\ eff_dict s' = eff_dict s.
Proof. exact restart_exact. Qed.

(** nothing is dropped because of its part of speech: what registration and learning produce is printable exactly when
    its reading is a non-empty string of the format's reading class and its stem is non-empty *)
Theorem C08_produced_entries_printable :
  (forall proper r w, valid_param r = true -> valid_param w = true ->
     entry_printable (noun_entry proper r w) = forallb is_kana r) /\
  (forall r w e, valid_param r = true -> valid_param w = true -> new_guessed r w = Ok e ->
     entry_printable e = kana_reading (e_reading e) && negb (match e_stem e with [] => true | _ => false end)).
Proof. exact produced_entries_printable. Qed.

(** FULL STATEMENT, not true of the code (known finding F16): "every user entry the server can hold is printable".
    Witness: RegisterWord{Guess, reading い, word い} is accepted and yields an entry with empty stem and reading. *)
Theorem C08_every_entry_printable_refuted :
  exists r w e, valid_param r = true /\ valid_param w = true /\ new_guessed r w = Ok e /\ entry_printable e = false.
Proof. exists [12356%N], [12356%N]. eexists. repeat split; vm_compute; reflexivity. Qed.

(** Known finding F20: RegisterWord accepts a reading with a character outside the text format's reading class (a digit, katakana,
    kanji ...); the entry is saved and skipped when it is read back - it silently disappears at the next restart (it was never
    convertible: the trie rejects such readings, C04_reject). *)
Theorem C08_nonkana_reading_refuted :
  exists r w, valid_param r = true /\ valid_param w = true /\ entry_printable (noun_entry false r w) = false.
Proof. exists [65297%N], [20108%N]. repeat split; vm_compute; reflexivity. Qed.
Print Assumptions C08_nonkana_reading_refuted.
