(** Model of Candidate::to_string_with_affix (libs/kkc/src/lib.rs): the compound a confirmed candidate teaches. *)
From Chokan Require Import Base.Str Base.ListUtil Dic.Speech Gen.SpeechNames Kkc.Context Gen.ScoreTables Kkc.Lattice Kkc.Score Kkc.Heap Kkc.Search.

Definition is_word_p (p : pnode) : bool := match p with PNode n => n_is_word n | _ => false end.

(** (written form, reading) of a word node satisfying a predicate on its speech *)
Definition word_if (f : speech -> bool) (p : pnode) : option (str * str) :=
  match p with
  | PNode n => match n_kind n with KWord w => if f (w_speech w) then Some (w_word w, w_reading w) else None | KVirtual _ => None end
  | _ => None
  end.
Definition as_prefix := word_if is_prefix.
Definition as_suffix := word_if is_suffix.
Definition as_independent := word_if (fun sp => negb (is_ancillary sp)).

Definition cat2 (a b : str * str) : str * str := (fst a ++ fst b, snd a ++ snd b).

Definition affix_of (chain : list pnode) : option (str * str) :=
  (* the sentence-begin marker is skipped *)
  let ch := match chain with PBos :: ((_ :: _) as rest) => rest | _ => chain end in
  match ch with
  | [] => None
  | cur :: rest =>
    if negb (is_word_p cur) then None
    else
      let next := match rest with n :: _ => if is_word_p n then Some n else None | [] => None end in
      let nn := match rest with _ :: n2 :: _ => if is_word_p n2 then Some n2 else None | _ => None end in
      match next, nn with
      | Some nx, Some n2 =>
        match as_prefix cur, as_independent nx, as_suffix n2 with
        | Some p, Some i, Some s => Some (cat2 (cat2 p i) s)
        | _, _, _ => None
        end
      | Some nx, None =>
        match as_prefix cur, as_independent nx, as_independent cur, as_suffix nx with
        | Some p, Some i, None, None => Some (cat2 p i)
        | None, None, Some i, Some s => Some (cat2 i s)
        | _, _, _, _ => None
        end
      | _, _ => None
      end
  end.
