(** The dictionary as the engine sees it: a trie (membership filter) in front of a map from reading
    to words.  Connects the abstract [lookup] of Kkc/Lattice.v with the trie of C04. *)
From Chokan Require Import Base.Str Base.ListUtil Dic.Speech Trie.TrieModel Trie.TrieAbs Kkc.Lattice.
From Chokan Require Props.C04.

(** graph.rs:  dic.trie.search(&key).and_then(|_| dic.map.get(&key)) *)
Definition lookup_via_trie (t : trie) (ws : list word) (key : str) : list word :=
  if member t key then lookup ws key else [].

Lemma filter_filter {A} (p q : A -> bool) l : filter p (filter q l) = filter (fun x => q x && p x) l.
Proof.
  induction l as [|x l IH]; [reflexivity|]. cbn [filter]. destruct (q x); cbn [filter andb]; [destruct (p x)|]; rewrite IH; reflexivity.
Qed.

(** whatever the trie contains, looking up through it is looking up in the sub-dictionary of the words
    whose reading the trie contains *)
Theorem lookup_via_trie_filter t ws key :
  lookup_via_trie t ws key = lookup (filter (fun w => member t (w_reading w)) ws) key.
Proof.
  unfold lookup_via_trie, lookup. rewrite filter_filter.
  destruct (member t key) eqn:Hm.
  - apply filter_ext_in. intros w _. destruct (str_eqb (w_reading w) key) eqn:E; [|rewrite andb_false_r; reflexivity].
    apply str_eqb_spec in E. rewrite E, Hm. reflexivity.
  - symmetry. induction ws as [|w ws IH]; [reflexivity|]. cbn [filter].
    destruct (str_eqb (w_reading w) key) eqn:E; [|rewrite andb_false_r; assumption].
    apply str_eqb_spec in E. rewrite E, Hm. cbn [andb]. assumption.
Qed.

(** for a trie built by ANY insertion history (any layout, clone, serde copy, later run-time insertions):
    the engine sees exactly the words whose reading was inserted *)
Theorem lookup_via_trie_reachable a t ks ws key : alphabet_ok a -> reachable a t ks ->
  lookup_via_trie t ws key = lookup (filter (fun w => existsb (str_eqb (w_reading w)) ks) ws) key.
Proof.
  intros Ha Hr. rewrite lookup_via_trie_filter. f_equal. apply filter_ext. intro w.
  destruct (member t (w_reading w)) eqn:Hm.
  - apply (Props.C04.C04_set_semantics a t ks Ha Hr) in Hm. symmetry. apply existsb_exists.
    exists (w_reading w). split; [assumption|apply str_eqb_refl].
  - symmetry. destruct (existsb (str_eqb (w_reading w)) ks) eqn:E; [|reflexivity].
    apply existsb_exists in E as (k & Hk & He). apply str_eqb_spec in He. subst k.
    apply (Props.C04.C04_set_semantics a t ks Ha Hr) in Hk. congruence.
Qed.

(** when every word's reading was inserted, the trie is transparent *)
Theorem lookup_via_trie_full a t ks ws key : alphabet_ok a -> reachable a t ks ->
  (forall w, In w ws -> In (w_reading w) ks) ->
  lookup_via_trie t ws key = lookup ws key.
Proof.
  intros Ha Hr Hall. rewrite (lookup_via_trie_reachable a t ks ws key Ha Hr). f_equal.
  rewrite <- (filter_ext_in (fun _ => true)); [induction ws as [|w ws IH]; [reflexivity|cbn [filter]; f_equal; apply IH; intros; apply Hall; right; assumption]|].
  intros w Hw. symmetry. apply existsb_exists. exists (w_reading w). split; [apply Hall; assumption|apply str_eqb_refl].
Qed.
