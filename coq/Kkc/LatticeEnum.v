(** [all_paths] (the exhaustive backward enumeration of Kkc/Paths.v) lists exactly the complete chains of a
    well-formed graph.  With it a statement about "every complete chain" of a concrete lattice can be decided by
    computation; used here to refute the first version of T5 formally.  No axioms. *)
From Coq Require Import List Arith Lia ZArith Bool ZifyBool.
From Chokan Require Import Base.Str Base.ListUtil Dic.Speech Gen.SpeechNames Kkc.Context Gen.ScoreTables
  Kkc.Lattice Kkc.Score Kkc.Heap Kkc.Search Kkc.Paths Kkc.LatticeWf Kkc.LatticePaths.
Import ListNotations.

Lemma chain_linked_app_r g a b : b <> [] -> chain_linked g (a ++ b) -> chain_linked g b.
Proof.
  intros Hb. induction a as [|x a IH]; [auto|]. cbn [app]. destruct (a ++ b) as [|q r] eqn:E.
  - destruct a; [cbn in E; congruence|discriminate E].
  - rewrite chain_linked_cons. intros [_ H]. apply IH. assumption.
Qed.

Lemma chain_linked_mid g a q p r : chain_linked g (a ++ q :: p :: r) -> In q (previous_nodes g p).
Proof. intro H. apply chain_linked_app_r in H; [|discriminate]. rewrite chain_linked_cons in H. apply H. Qed.

Lemma extend_complete g : forall pre suf fuel, suf <> [] -> chain_linked g (pre ++ suf) ->
  hd PEos (pre ++ suf) = PBos -> length pre < fuel -> In (pre ++ suf) (extend_chain fuel g suf).
Proof.
  induction pre as [|q pre IH] using rev_ind; intros suf fuel Hne Hc Hhd Hf.
  - destruct suf as [|p r]; [congruence|]. destruct fuel as [|fuel]; [lia|]. cbn [app hd] in *. subst p.
    cbn. left; reflexivity.
  - rewrite <- app_assoc in *. cbn [app] in *. destruct suf as [|p r]; [congruence|].
    rewrite app_length in Hf. cbn [length] in Hf. destruct fuel as [|fuel]; [lia|].
    pose proof (chain_linked_mid _ _ _ _ _ Hc) as Hq.
    cbn [extend_chain]. destruct p as [| |m]; [destruct Hq| |]; cbn [is_bos]; apply in_flat_map; exists q;
      (split; [assumption|]); apply IH; try assumption; try discriminate; lia.
Qed.

Lemma chain_length_bound g : graph_wf g -> forall rest n, chain_linked g (PNode n :: rest) -> n_end n + length rest <= length g.
Proof.
  intros Hw. induction rest as [|q r IH]; intros n Hc; [discriminate Hc|].
  rewrite chain_linked_cons in Hc. destruct Hc as [Hin Hc]. destruct q as [| |m].
  - destruct Hin.
  - destruct r as [|q2 r2]; [|rewrite chain_linked_cons in Hc; elim (prev_not_eos _ _ (proj1 Hc))].
    apply prev_eos_in in Hin as (k & Hk & Hnk). destruct (wf_In _ _ _ Hw Hnk) as [He _]. cbn [length]. lia.
  - specialize (IH m Hc). apply prev_node_in in Hin as [Hge Hnm]. destruct (wf_In _ _ _ Hw Hnm) as [He _].
    destruct (chain_head_in _ _ _ Hc) as [jm Hjm]. destruct (wf_In _ _ _ Hw Hjm) as [_ Hlm]. cbn [length]. lia.
Qed.

Theorem all_paths_complete g ch : graph_wf g -> complete_chain g ch -> In ch (all_paths g).
Proof.
  intros Hw Hcc. destruct (complete_chain_shape _ _ Hcc) as [ns ->]. destruct Hcc as [Hhd Hc].
  unfold all_paths. change (PBos :: map PNode ns ++ [PEos]) with ((PBos :: map PNode ns) ++ [PEos]) in *.
  apply extend_complete; try assumption; [discriminate|]. cbn [length]. rewrite map_length.
  destruct ns as [|n ns]; [cbn [length]; lia|].
  cbn [map app] in Hc. rewrite chain_linked_cons in Hc. destruct Hc as [_ Hc].
  apply (chain_length_bound _ Hw) in Hc. rewrite app_length, map_length in Hc. cbn [length] in *. lia.
Qed.

Lemma extend_sound g : forall fuel suf ch, chain_linked g suf -> In ch (extend_chain fuel g suf) ->
  chain_linked g ch /\ hd PEos ch = PBos.
Proof.
  induction fuel as [|fuel IH]; intros suf ch Hc Hin; [destruct Hin|].
  cbn [extend_chain] in Hin. destruct suf as [|p r]; [destruct Hin|].
  destruct (is_bos p) eqn:Ep.
  - destruct Hin as [<-|[]]. split; [assumption|]. destruct p; try discriminate Ep. reflexivity.
  - apply in_flat_map in Hin as (q & Hq & Hin). apply (IH (q :: p :: r)); [|assumption].
    rewrite chain_linked_cons. auto.
Qed.

Theorem all_paths_sound g ch : In ch (all_paths g) -> complete_chain g ch.
Proof.
  unfold all_paths. intro H. apply extend_sound in H; [|reflexivity]. destruct H as [H1 H2]. split; assumption.
Qed.

Theorem all_paths_spec g ch : graph_wf g -> (In ch (all_paths g) <-> complete_chain g ch).
Proof. intro Hw. split; [apply all_paths_sound|apply all_paths_complete; assumption]. Qed.

(** * The first version of T5 is false *)

Module T5Counterexample.
  Local Open Scope N_scope.
  Definition p := {| w_word := [101]; w_reading := [1]; w_speech := Affix APrefix |}.
  Definition w := {| w_word := [102]; w_reading := [2]; w_speech := Particle PAdverbial |}.
  Definition d := {| d_std := [w]; d_anc := [p] |}.
  Definition input : str := [1; 2; 3].
  Definition g : graph :=
    [[{| n_end := 0; n_slot := 0; n_kind := KWord p; n_score := 0 |}];
     [{| n_end := 1; n_slot := 0; n_kind := KWord w; n_score := 0 |}];
     [{| n_end := 2; n_slot := 0; n_kind := KVirtual [3]; n_score := 0 |};
      {| n_end := 2; n_slot := 1; n_kind := KVirtual [2; 3]; n_score := 0 |}]].
  Lemma lattice : from_input input d CNormal = Ok g.
  Proof. vm_compute. reflexivity. Qed.
End T5Counterexample.

Theorem after_prefix_path_false :
  ~ (forall input d ctx f g g' p w rest,
       from_input input d ctx = Ok g -> same_shape g g' ->
       In p (d_anc d) -> w_speech p = Affix APrefix -> w_reading p <> [] ->
       In w (d_std d) -> w_reading w <> [] ->
       (0 <= edge_between ctx (Affix APrefix) (w_speech w))%Z ->
       input = w_reading p ++ w_reading w ++ rest ->
       exists ch, complete_chain g' ch /\ chain_text ch = w_word p ++ w_word w ++ rest
                  /\ (freq_ok f -> connectable ctx f ch)).
Proof.
  intro H.
  destruct (H T5Counterexample.input T5Counterexample.d CNormal [] T5Counterexample.g T5Counterexample.g
              T5Counterexample.p T5Counterexample.w [3%N]) as (ch & Hc & _ & Hconn).
  - exact T5Counterexample.lattice.
  - apply same_shape_refl.
  - left; reflexivity.
  - reflexivity.
  - discriminate.
  - left; reflexivity.
  - discriminate.
  - vm_compute. discriminate.
  - reflexivity.
  - assert (Hw : graph_wf T5Counterexample.g).
    { destruct (from_input_total T5Counterexample.input T5Counterexample.d CNormal) as (g0 & Hg0 & _ & Hwf).
      rewrite T5Counterexample.lattice in Hg0. inversion Hg0; subst g0. assumption. }
    apply (all_paths_complete _ _ Hw) in Hc.
    assert (Hf : freq_ok []) by (intros c w; cbn; lia). specialize (Hconn Hf). unfold connectable in Hconn.
    vm_compute in Hc. destruct Hc as [<-|[<-|[]]]; vm_compute in Hconn; apply Hconn; reflexivity.
Qed.
