(** Structural facts about the lattice construction [from_input] (model of graph.rs):
    exact membership characterisation of every pass, well-formedness of the result,
    invariance under [same_shape].  No axioms. *)
From Coq Require Import List Arith Lia ZArith Bool ZifyBool Sorted.
From Chokan Require Import Base.Str Base.ListUtil Dic.Speech Gen.SpeechNames Kkc.Context Gen.ScoreTables
  Kkc.Lattice Kkc.Score Kkc.Heap Kkc.Search Kkc.Paths.
Import ListNotations.

(** * Lists *)

Lemma nth_upd_nth_eq {A} (l : list A) i f d : i < length l -> nth i (upd_nth l i f) d = f (nth i l d).
Proof. revert i; induction l as [|x l IH]; intros [|i] H; cbn in *; try lia; auto. apply IH; lia. Qed.

Lemma nth_upd_nth_neq {A} (l : list A) i j f d : i <> j -> nth j (upd_nth l i f) d = nth j l d.
Proof. revert i j; induction l as [|x l IH]; intros [|i] [|j] H; cbn; auto; try congruence. Qed.

Lemma upd_nth_oob {A} (l : list A) i f : length l <= i -> upd_nth l i f = l.
Proof. revert i; induction l as [|x l IH]; intros [|i] H; cbn in *; try lia; auto. f_equal. apply IH; lia. Qed.

Lemma In_nth_nil {A} (g : list (list A)) j x : In x (nth j g []) -> nth_error g j = Some (nth j g []) /\ j < length g.
Proof.
  intro H. destruct (Nat.lt_ge_cases j (length g)) as [Hlt|Hge].
  - split; [|assumption]. apply nth_error_nth'. assumption.
  - rewrite nth_overflow in H by assumption. destruct H.
Qed.

Lemma nth_error_nth_nil {A} (g : list (list A)) j l : nth_error g j = Some l -> nth j g [] = l.
Proof. intro H. apply nth_error_nth. assumption. Qed.

Lemma fold_left_flat_map {A B C} (f : A -> B -> A) (h : C -> list B) (l : list C) (a : A) :
  fold_left f (flat_map h l) a = fold_left (fun a x => fold_left f (h x) a) l a.
Proof. revert a; induction l as [|x l IH]; intro a; cbn [flat_map fold_left]; [reflexivity|]. rewrite fold_left_app. apply IH. Qed.

Lemma fold_left_concat {A B} (f : A -> B -> A) (l : list (list B)) (a : A) :
  fold_left f (concat l) a = fold_left (fun a x => fold_left f x a) l a.
Proof. revert a; induction l as [|x l IH]; intro a; cbn [concat fold_left]; [reflexivity|]. rewrite fold_left_app. apply IH. Qed.

Lemma fold_left_ext_in {A B} (f f' : A -> B -> A) (l : list B) :
  (forall a x, In x l -> f a x = f' a x) -> forall a, fold_left f l a = fold_left f' l a.
Proof.
  induction l as [|x l IH]; intros H a; cbn [fold_left]; [reflexivity|].
  rewrite H by (left; reflexivity). apply IH. intros a' y Hy. apply H. right; assumption.
Qed.

Lemma fold_inv {X G} (P : G -> Prop) (F : X -> G -> G) (xs : list X) :
  (forall x g, In x xs -> P g -> P (F x g)) -> forall g, P g -> P (fold_left (fun g x => F x g) xs g).
Proof.
  induction xs as [|x xs IH]; intros H g Hg; cbn [fold_left]; [assumption|].
  apply IH; [intros y g' Hy; apply H; right; assumption|]. apply H; [left; reflexivity|assumption].
Qed.

Lemma Forall2_nth_error_r {A B} (R : A -> B -> Prop) l l' i y :
  Forall2 R l l' -> nth_error l' i = Some y -> exists x, nth_error l i = Some x /\ R x y.
Proof.
  intro H; revert i; induction H as [|a b l l' Hab H IH]; intros [|i] Hi; cbn in *; try discriminate.
  - inversion Hi; subst. eauto.
  - apply IH; assumption.
Qed.

Lemma Forall2_nth_error_l {A B} (R : A -> B -> Prop) l l' i x :
  Forall2 R l l' -> nth_error l i = Some x -> exists y, nth_error l' i = Some y /\ R x y.
Proof.
  intro H; revert i; induction H as [|a b l l' Hab H IH]; intros [|i] Hi; cbn in *; try discriminate.
  - inversion Hi; subst. eauto.
  - apply IH; assumption.
Qed.

Lemma Forall2_In_l {A B} (R : A -> B -> Prop) l l' x :
  Forall2 R l l' -> In x l -> exists y, In y l' /\ R x y.
Proof.
  intro H; induction H as [|a b l l' Hab H IH]; intros Hin; [destruct Hin|].
  destruct Hin as [->|Hin]; [exists b; split; [left; reflexivity|assumption]|].
  destruct (IH Hin) as (y & Hy & Hr). exists y; split; [right; assumption|assumption].
Qed.

Lemma Forall2_sym {A B} (R : A -> B -> Prop) (R' : B -> A -> Prop) l l' :
  (forall x y, R x y -> R' y x) -> Forall2 R l l' -> Forall2 R' l' l.
Proof. intros HR H; induction H; constructor; auto. Qed.

Lemma Forall2_nth_nil {A B} (R : A -> B -> Prop) (g : list (list A)) (g' : list (list B)) j :
  Forall2 (Forall2 R) g g' -> Forall2 R (nth j g []) (nth j g' []).
Proof.
  intro H; revert j; induction H as [|a b l l' Hab H IH]; intros [|j]; cbn; try constructor; auto.
Qed.

(** * Slices *)

Lemma slice_length input i j : j < length input -> length (slice input i j) = S j - i.
Proof. intro H. unfold slice. rewrite firstn_length, skipn_length. lia. Qed.

Lemma slice_prefix r rest : r <> [] -> slice (r ++ rest) 0 (length r - 1) = r.
Proof.
  intro H. unfold slice. cbn [skipn].
  replace (S (length r - 1) - 0) with (length r) by (destruct r; cbn [length]; [congruence|lia]).
  rewrite firstn_app, Nat.sub_diag, firstn_all. cbn [firstn]. apply app_nil_r.
Qed.

Lemma slice_mid a b rest : b <> [] -> slice (a ++ b ++ rest) (length a) (length a + length b - 1) = b.
Proof.
  intro H. unfold slice. rewrite skipn_app, skipn_all, Nat.sub_diag. cbn [skipn app].
  replace (S (length a + length b - 1) - length a) with (length b) by (destruct b; cbn [length]; [congruence|lia]).
  rewrite firstn_app, Nat.sub_diag, firstn_all. cbn [firstn]. apply app_nil_r.
Qed.

Lemma slice_to_end input s last : length input = S last -> slice input s last = skipn s input.
Proof. intro H. unfold slice. apply firstn_all2. rewrite skipn_length. lia. Qed.

Lemma skipn_skipn' {A} (a b : nat) (l : list A) : skipn a (skipn b l) = skipn (b + a) l.
Proof.
  revert l; induction b as [|b IH]; intro l; [reflexivity|].
  destruct l as [|x l]; cbn [skipn plus]; [destruct a; reflexivity|apply IH].
Qed.

Lemma slice_app_skipn input s e : s <= S e -> slice input s e ++ skipn (S e) input = skipn s input.
Proof.
  intro H. unfold slice. replace (skipn (S e) input) with (skipn (S e - s) (skipn s input)).
  - apply firstn_skipn.
  - rewrite skipn_skipn'. f_equal. lia.
Qed.

(** * Kinds, membership *)

Definition klen (k : nkind) : nat := match k with KWord w => length (w_reading w) | KVirtual s => length s end.

Lemma n_len_klen n : n_len n = klen (n_kind n).
Proof. reflexivity. Qed.

(** the graph holds a node of kind [k] ending at index [j] *)
Definition has (g : graph) (j : nat) (k : nkind) : Prop := exists n, In n (nth j g []) /\ n_kind n = k.

Lemma has_lt g j k : has g j k -> j < length g.
Proof. intros (n & Hin & _). apply In_nth_nil in Hin. apply Hin. Qed.

(** pointer part of [graph_wf] *)
Definition swf (g : graph) : Prop :=
  forall i l, nth_error g i = Some l -> forall j n, nth_error l j = Some n -> n_end n = i /\ n_slot n = j.

Lemma swf_In g j n : swf g -> In n (nth j g []) -> n_end n = j.
Proof.
  intros Hw Hin. destruct (In_nth_nil _ _ _ Hin) as [He _].
  apply In_nth_error in Hin as [s Hs]. apply (Hw _ _ He _ _ Hs).
Qed.

Lemma swf_repeat len : swf (repeat [] len).
Proof.
  intros i l Hi j n Hj. apply nth_error_In in Hi. apply repeat_spec in Hi. subst l. destruct j; discriminate Hj.
Qed.

Lemma has_repeat len j k : ~ has (repeat [] len) j k.
Proof.
  intros (n & Hin & _). destruct (In_nth_nil _ _ _ Hin) as [He _]. apply nth_error_In in He.
  apply repeat_spec in He. rewrite He in Hin. destruct Hin.
Qed.

(** * push_node *)

Lemma push_node_length g j k : length (push_node g j k) = length g.
Proof. apply upd_nth_length. Qed.

Lemma push_node_row_eq g j k : j < length g ->
  nth j (push_node g j k) [] = nth j g [] ++ [{| n_end := j; n_slot := length (nth j g []); n_kind := k; n_score := 0%Z |}].
Proof. intro H. unfold push_node. rewrite nth_upd_nth_eq by assumption. reflexivity. Qed.

Lemma push_node_row_neq g j j' k : j <> j' -> nth j' (push_node g j k) [] = nth j' g [].
Proof. intro H. unfold push_node. apply nth_upd_nth_neq. assumption. Qed.

Lemma has_push g j k j' k' : has (push_node g j k) j' k' <-> has g j' k' \/ (j' = j /\ j < length g /\ k' = k).
Proof.
  unfold has. destruct (Nat.eq_dec j j') as [<-|Hne].
  - destruct (Nat.lt_ge_cases j (length g)) as [Hlt|Hge].
    + rewrite push_node_row_eq by assumption. split.
      * intros (n & Hin & Hk). apply in_app_or in Hin as [Hin|[<-|[]]]; [left; eauto|]. right. cbn in Hk. auto.
      * intros [(n & Hin & Hk)|(_ & _ & ->)].
        -- exists n. split; [apply in_or_app; left; assumption|assumption].
        -- eexists. split; [apply in_or_app; right; left; reflexivity|reflexivity].
    + unfold push_node. rewrite upd_nth_oob by assumption. split; [auto|]. intros [H|(_ & H & _)]; [assumption|lia].
  - rewrite push_node_row_neq by assumption. split; [auto|]. intros [H|(H & _)]; [assumption|congruence].
Qed.

Lemma swf_push g j k : swf g -> swf (push_node g j k).
Proof.
  intros Hw i l Hi s n Hs. unfold push_node in Hi. destruct (Nat.eq_dec j i) as [->|Hne].
  - rewrite nth_error_upd_nth_eq in Hi. destruct (nth_error g i) as [l0|] eqn:E; [|discriminate].
    cbn in Hi. inversion Hi; subst l; clear Hi.
    destruct (Nat.lt_ge_cases s (length l0)) as [Hlt|Hge].
    + rewrite nth_error_app1 in Hs by assumption. apply (Hw _ _ E _ _ Hs).
    + rewrite nth_error_app2 in Hs by assumption. destruct (s - length l0) as [|[|?]] eqn:Es; cbn in Hs; try discriminate.
      inversion Hs; subst n; cbn. split; [reflexivity|lia].
  - rewrite nth_error_upd_nth_neq in Hi by assumption. apply (Hw _ _ Hi _ _ Hs).
Qed.

(** * Generic characterisation of a fold of passes *)

Lemma fold_has {X} (F : X -> graph -> graph) (Q : X -> nat -> nkind -> Prop) (xs : list X) :
  (forall x g, length (F x g) = length g) ->
  (forall x g j k, In x xs -> has (F x g) j k <-> has g j k \/ (j < length g /\ Q x j k)) ->
  forall g j k, has (fold_left (fun g x => F x g) xs g) j k <-> has g j k \/ (j < length g /\ exists x, In x xs /\ Q x j k).
Proof.
  intros Hlen. induction xs as [|x xs IH]; intros HF g j k; cbn [fold_left].
  - split; [auto|]. intros [H|(_ & y & [] & _)]. assumption.
  - rewrite IH by (intros y g' j' k' Hy; apply HF; right; assumption).
    rewrite HF by (left; reflexivity). rewrite Hlen. split.
    + intros [[H|(Hl & Hq)]|(Hl & y & Hy & Hq)]; [left; assumption| |].
      * right. split; [assumption|]. exists x. split; [left; reflexivity|assumption].
      * right. split; [assumption|]. exists y. split; [right; assumption|assumption].
    + intros [H|(Hl & y & [<-|Hy] & Hq)]; [left; left; assumption| |].
      * left; right. split; assumption.
      * right. split; [assumption|]. exists y. split; assumption.
Qed.

Lemma fold_length {X} (F : X -> graph -> graph) (xs : list X) :
  (forall x g, length (F x g) = length g) -> forall g, length (fold_left (fun g x => F x g) xs g) = length g.
Proof. intros H. induction xs as [|x xs IH]; intro g; cbn [fold_left]; [reflexivity|]. rewrite IH. apply H. Qed.

(** * push_words *)

Lemma push_words_length g j ws : length (push_words g j ws) = length g.
Proof. unfold push_words. apply (fold_length (fun w g => push_node g j (KWord w))). intros; apply push_node_length. Qed.

Lemma has_push_words g j ws j' k :
  has (push_words g j ws) j' k <-> has g j' k \/ (j' < length g /\ exists w, In w ws /\ j' = j /\ k = KWord w).
Proof.
  unfold push_words.
  apply (fold_has (fun w g => push_node g j (KWord w)) (fun w j' k => j' = j /\ k = KWord w)).
  - intros; apply push_node_length.
  - intros w g0 j0 k0 _. rewrite has_push. split.
    + intros [H|(-> & Hl & ->)]; [left; assumption|right; auto].
    + intros [H|(Hl & -> & ->)]; [left; assumption|right; auto].
Qed.

Lemma swf_push_words g j ws : swf g -> swf (push_words g j ws).
Proof. unfold push_words. apply (fold_inv swf (fun w g => push_node g j (KWord w))). intros; apply swf_push; assumption. Qed.

Lemma In_lookup ws key w : In w (lookup ws key) <-> In w ws /\ w_reading w = key.
Proof. unfold lookup. rewrite filter_In, str_eqb_spec. reflexivity. Qed.

(** * A row of dictionary lookups: the inner loop of passes 1-3 *)

Definition row_fold (key : nat -> str) (ws : list word) (js : list nat) (g : graph) : graph :=
  fold_left (fun g j0 => push_words g j0 (lookup ws (key j0))) js g.

Lemma row_fold_length key ws js g : length (row_fold key ws js g) = length g.
Proof. unfold row_fold. apply (fold_length (fun j0 g => push_words g j0 (lookup ws (key j0)))). intros; apply push_words_length. Qed.

Lemma swf_row_fold key ws js g : swf g -> swf (row_fold key ws js g).
Proof.
  unfold row_fold. apply (fold_inv swf (fun j0 g => push_words g j0 (lookup ws (key j0)))).
  intros; apply swf_push_words; assumption.
Qed.

Lemma has_row_fold key ws js g j k :
  has (row_fold key ws js g) j k <->
  has g j k \/ (j < length g /\ In j js /\ exists w, In w ws /\ w_reading w = key j /\ k = KWord w).
Proof.
  unfold row_fold.
  rewrite (fold_has (fun j0 g => push_words g j0 (lookup ws (key j0)))
                    (fun j0 j k => exists w, In w (lookup ws (key j0)) /\ j = j0 /\ k = KWord w)).
  - split.
    + intros [H|(Hl & j0 & Hj0 & w & Hw & -> & ->)]; [left; assumption|]. right.
      apply In_lookup in Hw as [Hw Hr]. split; [assumption|]. split; [assumption|]. exists w; auto.
    + intros [H|(Hl & Hj & w & Hw & Hr & ->)]; [left; assumption|]. right. split; [assumption|].
      exists j. split; [assumption|]. exists w. split; [apply In_lookup; auto|auto].
  - intros; apply push_words_length.
  - intros j0 g0 j1 k1 _. apply has_push_words.
Qed.

(** * Pass 1: find_ancillary *)

Lemma find_ancillary_eq input d :
  find_ancillary input d =
  fold_left (fun g i => row_fold (slice input i) (d_anc d) (seq i (length input - i)) g)
            (seq 0 (length input)) (repeat [] (length input)).
Proof. reflexivity. Qed.

Lemma find_ancillary_length input d : length (find_ancillary input d) = length input.
Proof.
  rewrite find_ancillary_eq.
  rewrite (fold_length (fun i g => row_fold (slice input i) (d_anc d) (seq i (length input - i)) g)).
  - apply repeat_length.
  - intros; apply row_fold_length.
Qed.

Lemma swf_find_ancillary input d : swf (find_ancillary input d).
Proof.
  rewrite find_ancillary_eq.
  apply (fold_inv swf (fun i g => row_fold (slice input i) (d_anc d) (seq i (length input - i)) g)).
  - intros; apply swf_row_fold; assumption.
  - apply swf_repeat.
Qed.

Lemma has_find_ancillary input d j k :
  has (find_ancillary input d) j k <->
  j < length input /\ exists i w, i <= j /\ In w (d_anc d) /\ w_reading w = slice input i j /\ k = KWord w.
Proof.
  rewrite find_ancillary_eq.
  rewrite (fold_has (fun i g => row_fold (slice input i) (d_anc d) (seq i (length input - i)) g)
                    (fun i j k => In j (seq i (length input - i)) /\
                                  exists w, In w (d_anc d) /\ w_reading w = slice input i j /\ k = KWord w)).
  - rewrite repeat_length. split.
    + intros [H|(Hl & i & Hi & Hj & w & Hw & Hr & ->)]; [elim (has_repeat _ _ _ H)|].
      split; [assumption|]. exists i, w. apply in_seq in Hj. repeat split; auto; lia.
    + intros (Hl & i & w & Hi & Hw & Hr & ->). right. split; [assumption|]. exists i.
      split; [apply in_seq; lia|]. split; [apply in_seq; lia|]. exists w; auto.
  - intros; apply row_fold_length.
  - intros i g0 j0 k0 _. apply has_row_fold.
Qed.

(** * Pass 2: find_word_only_first *)

Lemma find_word_only_first_eq input d g :
  find_word_only_first input d g = row_fold (slice input 0) (d_std d) (seq 0 (length input)) g.
Proof. reflexivity. Qed.

(** * Pass 3: find_word_after_prefix *)

Lemma find_word_after_prefix_eq input d anc g :
  find_word_after_prefix input d anc g =
  fold_left (fun g p => row_fold (slice input (S (n_end p))) (d_std d) (seq (S (n_end p)) (length input - S (n_end p))) g)
            (prefix_nodes anc) g.
Proof. reflexivity. Qed.

Lemma find_word_after_prefix_length input d anc g : length (find_word_after_prefix input d anc g) = length g.
Proof.
  rewrite find_word_after_prefix_eq.
  apply (fold_length (fun p g => row_fold (slice input (S (n_end p))) (d_std d) (seq (S (n_end p)) (length input - S (n_end p))) g)).
  intros; apply row_fold_length.
Qed.

Lemma swf_find_word_after_prefix input d anc g : swf g -> swf (find_word_after_prefix input d anc g).
Proof.
  rewrite find_word_after_prefix_eq.
  apply (fold_inv swf (fun p g => row_fold (slice input (S (n_end p))) (d_std d) (seq (S (n_end p)) (length input - S (n_end p))) g)).
  intros; apply swf_row_fold; assumption.
Qed.

Lemma has_find_word_after_prefix input d anc g j k :
  has (find_word_after_prefix input d anc g) j k <->
  has g j k \/ (j < length g /\ exists p w, In p (prefix_nodes anc) /\ S (n_end p) <= j < length input /\
                                           In w (d_std d) /\ w_reading w = slice input (S (n_end p)) j /\ k = KWord w).
Proof.
  rewrite find_word_after_prefix_eq.
  rewrite (fold_has (fun p g => row_fold (slice input (S (n_end p))) (d_std d) (seq (S (n_end p)) (length input - S (n_end p))) g)
                    (fun p j k => In j (seq (S (n_end p)) (length input - S (n_end p))) /\
                                  exists w, In w (d_std d) /\ w_reading w = slice input (S (n_end p)) j /\ k = KWord w)).
  - split.
    + intros [H|(Hl & p & Hp & Hj & w & Hw & Hr & ->)]; [left; assumption|]. right. split; [assumption|].
      exists p, w. apply in_seq in Hj. repeat split; auto; lia.
    + intros [H|(Hl & p & w & Hp & Hj & Hw & Hr & ->)]; [left; assumption|]. right. split; [assumption|].
      exists p. split; [assumption|]. split; [apply in_seq; lia|]. exists w; auto.
  - intros; apply row_fold_length.
  - intros p g0 j0 k0 _. apply has_row_fold.
Qed.

(** prefix nodes, at the level of kinds *)
Lemma In_concat_nth {A} (g : list (list A)) x : In x (concat g) <-> exists j, In x (nth j g []).
Proof.
  rewrite in_concat. split.
  - intros (l & Hl & Hx). apply In_nth_error in Hl as [j Hj]. exists j. rewrite (nth_error_nth_nil _ _ _ Hj). assumption.
  - intros (j & Hx). destruct (In_nth_nil _ _ _ Hx) as [He _]. exists (nth j g []). split; [|assumption].
    eapply nth_error_In; eassumption.
Qed.

Lemma prefix_nodes_spec anc e : swf anc ->
  (exists p, In p (prefix_nodes anc) /\ n_end p = e) <->
  (exists pw, has anc e (KWord pw) /\ w_speech pw = Affix APrefix /\ S e - length (w_reading pw) = 0).
Proof.
  intro Hw. unfold prefix_nodes. split.
  - intros (p & Hp & He). apply filter_In in Hp as [Hin Hf]. apply In_concat_nth in Hin as [j Hj].
    pose proof (swf_In _ _ _ Hw Hj) as Hend. destruct (n_kind p) as [pw|s] eqn:Ek; [|discriminate].
    apply andb_true_iff in Hf as [Hf1 Hf2]. apply Nat.eqb_eq in Hf2. exists pw. split; [|split].
    + exists p. split; [congruence|assumption].
    + destruct (w_speech pw) as [| | | | | | | | | | |[]]; try discriminate; reflexivity.
    + unfold n_start in Hf2. rewrite n_len_klen, Ek in Hf2. cbn [klen] in Hf2. congruence.
  - intros (pw & (p & Hin & Hk) & Hsp & Hs). exists p. pose proof (swf_In _ _ _ Hw Hin) as Hend. split; [|assumption].
    apply filter_In. split; [apply In_concat_nth; eauto|]. rewrite Hk, Hsp. cbn [is_prefix_pat andb].
    apply Nat.eqb_eq. unfold n_start. rewrite n_len_klen, Hk, Hend. exact Hs.
Qed.

(** * Pass 4: merge_ancillaries *)

(** a node of this kind lets an ancillary word start right after it *)
Definition supports (k : nkind) : bool :=
  match k with
  | KWord w => is_suffix_pat (w_speech w) || negb (is_ancillary (w_speech w))
  | KVirtual _ => true
  end.

(** [is_mergeable] for a node of kind [k] ending at [j], as a proposition over the kinds present in [g] *)
Definition mergeable_k (g : graph) (ctx : context) (j : nat) (k : nkind) : Prop :=
  (S j - klen k = 0 /\ exists w, k = KWord w /\ head_mergeable ctx (w_speech w) = true)
  \/ (S j - klen k <> 0 /\ exists k', has g (S j - klen k - 1) k' /\ supports k' = true).

Lemma is_mergeable_spec g ctx n : is_mergeable g ctx n = true <-> mergeable_k g ctx (n_end n) (n_kind n).
Proof.
  unfold is_mergeable, mergeable_k, n_start. rewrite n_len_klen.
  destruct (Nat.eqb_spec (S (n_end n) - klen (n_kind n)) 0) as [Hz|Hnz].
  - destruct (n_kind n) as [w|s].
    + split; [intro H; left; eauto|]. intros [(_ & w' & Hk & H)|(Hne & _)]; [inversion Hk; subst; assumption|lia].
    + split; [discriminate|]. intros [(_ & w' & Hk & _)|(Hne & _)]; [discriminate Hk|lia].
  - set (i := S (n_end n) - klen (n_kind n) - 1). destruct (nth_error g i) as [v|] eqn:E.
    + pose proof (nth_error_nth_nil _ _ _ E) as Hrow. rewrite orb_true_iff, !existsb_exists. split.
      * intros [(m & Hin & Hm)|(m & Hin & Hm)]; right; (split; [assumption|]); exists (n_kind m);
          (split; [exists m; split; [rewrite Hrow; assumption|reflexivity]|]).
        -- destruct (n_kind m) as [w|s]; [|discriminate]. cbn [supports]. rewrite Hm. reflexivity.
        -- unfold n_is_ancillary in Hm. destruct (n_kind m) as [w|s]; cbn [supports]; [|reflexivity].
           rewrite Hm. apply orb_true_r.
      * intros [(Hz & _)|(_ & k' & (m & Hin & Hk) & Hs)]; [lia|]. rewrite Hrow in Hin.
        destruct k' as [w|s]; cbn [supports] in Hs.
        -- apply orb_true_iff in Hs as [Hs|Hs]; [left|right]; exists m; (split; [assumption|]).
           ++ rewrite Hk. assumption.
           ++ unfold n_is_ancillary. rewrite Hk. assumption.
        -- right. exists m. split; [assumption|]. unfold n_is_ancillary. rewrite Hk. reflexivity.
    + split; [discriminate|]. intros [(Hz & _)|(_ & k' & Hh & _)]; [lia|]. apply has_lt in Hh.
      apply nth_error_None in E. lia.
Qed.

Lemma mergeable_k_ext g g' ctx j k :
  (S j - klen k <> 0 -> nth (S j - klen k - 1) g [] = nth (S j - klen k - 1) g' []) ->
  mergeable_k g ctx j k <-> mergeable_k g' ctx j k.
Proof.
  intro H. unfold mergeable_k, has. split; (intros [Hl|(Hnz & Hr)]; [left; assumption|right; split; [assumption|]]).
  - rewrite <- (H Hnz). assumption.
  - rewrite (H Hnz). assumption.
Qed.

Definition mstep (ctx : context) (g : graph) (n : lnode) : graph :=
  if is_mergeable g ctx n then push_node g (n_end n) (n_kind n) else g.

Lemma merge_ancillaries_eq g anc ctx : merge_ancillaries g anc ctx = fold_left (mstep ctx) (concat anc) g.
Proof. reflexivity. Qed.

Lemma mstep_length ctx g n : length (mstep ctx g n) = length g.
Proof. unfold mstep. destruct (is_mergeable g ctx n); [apply push_node_length|reflexivity]. Qed.

Lemma swf_mstep ctx g n : swf g -> swf (mstep ctx g n).
Proof. intro H. unfold mstep. destruct (is_mergeable g ctx n); [apply swf_push; assumption|assumption]. Qed.

Lemma mstep_row_other ctx g n i : n_end n <> i -> nth i (mstep ctx g n) [] = nth i g [].
Proof. intro H. unfold mstep. destruct (is_mergeable g ctx n); [apply push_node_row_neq; assumption|reflexivity]. Qed.

Lemma fold_mstep_length ctx ns g : length (fold_left (mstep ctx) ns g) = length g.
Proof. apply (fold_length (fun n g => mstep ctx g n)). intros; apply mstep_length. Qed.

Lemma fold_mstep_row_other ctx ns g i :
  (forall n, In n ns -> n_end n <> i) -> nth i (fold_left (mstep ctx) ns g) [] = nth i g [].
Proof.
  revert g; induction ns as [|n ns IH]; intros g H; cbn [fold_left]; [reflexivity|].
  rewrite IH by (intros m Hm; apply H; right; assumption). apply mstep_row_other. apply H. left; reflexivity.
Qed.

Lemma has_mstep ctx g n j k :
  has (mstep ctx g n) j k <-> has g j k \/ (j = n_end n /\ j < length g /\ k = n_kind n /\ is_mergeable g ctx n = true).
Proof.
  unfold mstep. destruct (is_mergeable g ctx n).
  - rewrite has_push. split.
    + intros [H|(-> & Hl & ->)]; [left; assumption|right; auto].
    + intros [H|(-> & Hl & -> & _)]; [left; assumption|right; auto].
  - split; [auto|]. intros [H|(_ & _ & _ & H)]; [assumption|discriminate].
Qed.

Definition end_le (a b : lnode) : Prop := n_end a <= n_end b.

Lemma merge_fwd ctx ns : StronglySorted end_le ns -> (forall n, In n ns -> 1 <= klen (n_kind n)) ->
  forall g j k, has (fold_left (mstep ctx) ns g) j k <->
    has g j k \/ (j < length g /\ exists n, In n ns /\ n_end n = j /\ n_kind n = k /\
                                           mergeable_k (fold_left (mstep ctx) ns g) ctx j k).
Proof.
  induction ns as [|a ns IH]; intros Hs Hl g j k; cbn [fold_left].
  - split; [auto|]. intros [H|(_ & n & [] & _)]. assumption.
  - apply StronglySorted_inv in Hs as [Hs Hall]. rewrite Forall_forall in Hall.
    rewrite IH; [|assumption|intros n Hn; apply Hl; right; assumption].
    set (F := fold_left (mstep ctx) ns (mstep ctx g a)).
    assert (Hext : is_mergeable g ctx a = true <-> mergeable_k F ctx (n_end a) (n_kind a)).
    { rewrite is_mergeable_spec. apply mergeable_k_ext. intro Hnz.
      assert (Hk : 1 <= klen (n_kind a)) by (apply Hl; left; reflexivity).
      symmetry. unfold F. rewrite fold_mstep_row_other.
      - apply mstep_row_other. lia.
      - intros m Hm. specialize (Hall m Hm). unfold end_le in Hall. lia. }
    rewrite has_mstep, mstep_length. split.
    + intros [[H|(-> & Hlt & -> & Hm)]|(Hlt & n & Hn & He & Hk & Hm)]; [left; assumption| |].
      * right. split; [assumption|]. exists a. split; [left; reflexivity|]. repeat split. apply Hext. assumption.
      * right. split; [assumption|]. exists n. split; [right; assumption|]. auto.
    + intros [H|(Hlt & n & [<-|Hn] & He & Hk & Hm)]; [left; left; assumption| |].
      * left; right. subst j k. repeat split; auto. apply Hext. assumption.
      * right. split; [assumption|]. exists n. auto.
Qed.

Lemma StronglySorted_app {A} (R : A -> A -> Prop) l r :
  StronglySorted R l -> StronglySorted R r -> (forall a b, In a l -> In b r -> R a b) -> StronglySorted R (l ++ r).
Proof.
  induction l as [|x l IH]; intros Hl Hr H; cbn [app]; [assumption|].
  apply StronglySorted_inv in Hl as [Hl Hx]. constructor.
  - apply IH; [assumption|assumption|]. intros a b Ha Hb. apply H; [right; assumption|assumption].
  - apply Forall_app. split; [assumption|]. apply Forall_forall. intros b Hb. apply H; [left; reflexivity|assumption].
Qed.

Lemma StronglySorted_total {A} (R : A -> A -> Prop) l : (forall a b, In a l -> In b l -> R a b) -> StronglySorted R l.
Proof.
  induction l as [|x l IH]; intro H; constructor.
  - apply IH. intros a b Ha Hb. apply H; right; assumption.
  - apply Forall_forall. intros b Hb. apply H; [left; reflexivity|right; assumption].
Qed.

Lemma concat_sorted_from anc : forall k0, (forall j n, In n (nth j anc []) -> n_end n = k0 + j) ->
  StronglySorted end_le (concat anc).
Proof.
  induction anc as [|l anc IH]; intros k0 H; cbn [concat]; [constructor|].
  apply StronglySorted_app.
  - apply StronglySorted_total. intros a b Ha Hb. unfold end_le.
    rewrite (H 0 a Ha), (H 0 b Hb). lia.
  - apply (IH (S k0)). intros j n Hn. rewrite (H (S j) n Hn). lia.
  - intros a b Ha Hb. unfold end_le. apply In_concat_nth in Hb as [j Hj].
    rewrite (H 0 a Ha), (H (S j) b Hj). lia.
Qed.

Lemma concat_sorted anc : swf anc -> StronglySorted end_le (concat anc).
Proof. intro Hw. apply (concat_sorted_from anc 0). intros j n Hn. apply (swf_In _ _ _ Hw Hn). Qed.

Lemma merge_ancillaries_length g anc ctx : length (merge_ancillaries g anc ctx) = length g.
Proof. rewrite merge_ancillaries_eq. apply fold_mstep_length. Qed.

Lemma swf_merge_ancillaries g anc ctx : swf g -> swf (merge_ancillaries g anc ctx).
Proof. rewrite merge_ancillaries_eq. apply (fold_inv swf (fun n g => mstep ctx g n)). intros; apply swf_mstep; assumption. Qed.

Lemma has_merge_ancillaries g anc ctx : swf anc -> (forall j k, has anc j k -> 1 <= klen k) ->
  forall j k, has (merge_ancillaries g anc ctx) j k <->
    has g j k \/ (j < length g /\ has anc j k /\ mergeable_k (merge_ancillaries g anc ctx) ctx j k).
Proof.
  intros Hw Hl j k. rewrite merge_ancillaries_eq. rewrite merge_fwd.
  - split; (intros [H|(Hlt & H)]; [left; assumption|right; split; [assumption|]]).
    + destruct H as (n & Hn & He & Hk & Hm). split; [|assumption]. apply In_concat_nth in Hn as [j' Hj'].
      pose proof (swf_In _ _ _ Hw Hj') as He'. exists n. split; [congruence|assumption].
    + destruct H as ((n & Hn & Hk) & Hm). exists n. split; [apply In_concat_nth; eauto|].
      split; [apply (swf_In _ _ _ Hw Hn)|auto].
  - apply concat_sorted. assumption.
  - intros n Hn. apply In_concat_nth in Hn as [j' Hj']. apply (Hl j'). exists n. auto.
Qed.

(** * Pass 5: complete_virtual_nodes *)

Definition vstep (input : str) (last : nat) (g : graph) (i : nat) : graph :=
  match nth_error g i with
  | Some (_ :: _) => push_node g last (KVirtual (slice input (S i) last))
  | _ => g
  end.

Lemma complete_virtual_nodes_eq input g last : length input = S last ->
  complete_virtual_nodes input g = Ok (fold_left (vstep input last) (rev (seq 0 last)) g).
Proof. intro H. unfold complete_virtual_nodes. rewrite H. reflexivity. Qed.

Lemma nonempty_spec g i : (exists k, has g i k) <-> exists x l, nth_error g i = Some (x :: l).
Proof.
  split.
  - intros (k & n & Hin & _). destruct (In_nth_nil _ _ _ Hin) as [He _].
    destruct (nth i g []) as [|x l]; [destruct Hin|]. eauto.
  - intros (x & l & He). exists (n_kind x), x. rewrite (nth_error_nth_nil _ _ _ He). split; [left|]; reflexivity.
Qed.

Lemma vstep_length input last g i : length (vstep input last g i) = length g.
Proof. unfold vstep. destruct (nth_error g i) as [[|x l]|]; try reflexivity. apply push_node_length. Qed.

Lemma swf_vstep input last g i : swf g -> swf (vstep input last g i).
Proof. intro H. unfold vstep. destruct (nth_error g i) as [[|x l]|]; try assumption. apply swf_push; assumption. Qed.

Lemma vstep_row_other input last g i j : j <> last -> nth j (vstep input last g i) [] = nth j g [].
Proof. intro H. unfold vstep. destruct (nth_error g i) as [[|x l]|]; try reflexivity. apply push_node_row_neq. congruence. Qed.

Lemma has_vstep input last g i j k :
  has (vstep input last g i) j k <->
  has g j k \/ (j = last /\ last < length g /\ (exists k', has g i k') /\ k = KVirtual (slice input (S i) last)).
Proof.
  rewrite nonempty_spec. unfold vstep. destruct (nth_error g i) as [[|x l]|] eqn:E.
  - split; [auto|]. intros [H|(_ & _ & (x & l & Hx) & _)]; [assumption|discriminate].
  - rewrite has_push. split; (intros [H|H]; [left; assumption|right]).
    + destruct H as (-> & Hl & ->). eauto 6.
    + destruct H as (-> & Hl & _ & ->). auto.
  - split; [auto|]. intros [H|(_ & _ & (x & l & Hx) & _)]; [assumption|discriminate].
Qed.

Lemma has_fold_vstep input last is : (forall i, In i is -> i <> last) ->
  forall g j k, has (fold_left (vstep input last) is g) j k <->
    has g j k \/ (j = last /\ last < length g /\ exists i, In i is /\ (exists k', has g i k') /\ k = KVirtual (slice input (S i) last)).
Proof.
  induction is as [|i is IH]; intros Hne g j k; cbn [fold_left].
  - split; [auto|]. intros [H|(_ & _ & i & [] & _)]. assumption.
  - rewrite IH by (intros i' Hi'; apply Hne; right; assumption). rewrite has_vstep, vstep_length.
    assert (Hrow : forall i', In i' is -> (exists k', has (vstep input last g i) i' k') <-> (exists k', has g i' k')).
    { intros i' Hi'. unfold has. rewrite vstep_row_other by (apply Hne; right; assumption). reflexivity. }
    split.
    + intros [[H|(-> & Hl & Hn & ->)]|(-> & Hl & i' & Hi' & Hn & ->)]; [left; assumption| |].
      * right. repeat split; auto. exists i. split; [left; reflexivity|auto].
      * right. repeat split; auto. exists i'. split; [right; assumption|]. split; [apply (Hrow i' Hi'); assumption|reflexivity].
    + intros [H|(-> & Hl & i' & [<-|Hi'] & Hn & ->)]; [left; left; assumption| |].
      * left; right. auto.
      * right. repeat split; auto. exists i'. split; [assumption|]. split; [apply (Hrow i' Hi'); assumption|reflexivity].
Qed.

(** * The whole construction *)

Definition g1_of (input : str) (d : dict) : graph := find_word_only_first input d (repeat [] (length input)).
Definition g2_of (input : str) (d : dict) : graph := find_word_after_prefix input d (find_ancillary input d) (g1_of input d).
Definition g3_of (input : str) (d : dict) (ctx : context) : graph := merge_ancillaries (g2_of input d) (find_ancillary input d) ctx.

Lemma from_input_eq input d ctx : from_input input d ctx = complete_virtual_nodes input (g3_of input d ctx).
Proof. reflexivity. Qed.

Lemma g1_length input d : length (g1_of input d) = length input.
Proof. unfold g1_of. rewrite find_word_only_first_eq, row_fold_length. apply repeat_length. Qed.

Lemma g2_length input d : length (g2_of input d) = length input.
Proof. unfold g2_of. rewrite find_word_after_prefix_length. apply g1_length. Qed.

Lemma g3_length input d ctx : length (g3_of input d ctx) = length input.
Proof. unfold g3_of. rewrite merge_ancillaries_length. apply g2_length. Qed.

Lemma swf_g3 input d ctx : swf (g3_of input d ctx).
Proof.
  unfold g3_of, g2_of, g1_of. apply swf_merge_ancillaries, swf_find_word_after_prefix.
  rewrite find_word_only_first_eq. apply swf_row_fold, swf_repeat.
Qed.

(** a standard word may start at 0 or right after an ancillary prefix affix that starts at 0 *)
Definition std_start (input : str) (d : dict) (s : nat) : Prop :=
  s = 0 \/ exists e pw, s = S e /\ has (find_ancillary input d) e (KWord pw) /\
                        w_speech pw = Affix APrefix /\ S e - length (w_reading pw) = 0.

Lemma has_g2 input d j k :
  has (g2_of input d) j k <->
  j < length input /\ exists w s, k = KWord w /\ In w (d_std d) /\ s <= j /\ w_reading w = slice input s j /\ std_start input d s.
Proof.
  unfold g2_of. rewrite has_find_word_after_prefix. rewrite g1_length. unfold g1_of.
  rewrite find_word_only_first_eq, has_row_fold, repeat_length. split.
  - intros [[H|(Hl & Hj & w & Hw & Hr & ->)]|(Hl & p & w & Hp & Hj & Hw & Hr & ->)].
    + elim (has_repeat _ _ _ H).
    + split; [assumption|]. exists w, 0. repeat split; auto; [lia|left; reflexivity].
    + split; [assumption|]. exists w, (S (n_end p)). repeat split; auto; [lia|]. right.
      destruct (proj1 (prefix_nodes_spec _ (n_end p) (swf_find_ancillary input d))) as (pw & H1 & H2 & H3); [eauto|].
      exists (n_end p), pw. auto.
  - intros (Hl & w & s & -> & Hw & Hs & Hr & [->|(e & pw & -> & H1 & H2 & H3)]).
    + left; right. split; [assumption|]. split; [apply in_seq; lia|]. eauto.
    + right. split; [assumption|].
      destruct (proj2 (prefix_nodes_spec _ e (swf_find_ancillary input d))) as (p & Hp & He); [eauto|].
      exists p, w. rewrite He. repeat split; auto.
Qed.

Lemma anc_klen input d j k : has (find_ancillary input d) j k -> 1 <= klen k <= S j.
Proof.
  intro H. apply has_find_ancillary in H as (Hl & i & w & Hi & _ & Hr & ->). cbn [klen].
  rewrite Hr, slice_length by assumption. lia.
Qed.

Lemma has_g3 input d ctx j k :
  has (g3_of input d ctx) j k <->
  has (g2_of input d) j k \/ (has (find_ancillary input d) j k /\ mergeable_k (g3_of input d ctx) ctx j k).
Proof.
  unfold g3_of at 1. rewrite has_merge_ancillaries.
  - fold (g3_of input d ctx). rewrite g2_length. split; (intros [H|H]; [left; assumption|right]).
    + tauto.
    + destruct H as (H1 & H2). split; [|auto]. apply has_lt in H1. rewrite find_ancillary_length in H1. assumption.
  - apply swf_find_ancillary.
  - intros j' k' H. apply (anc_klen _ _ _ _ H).
Qed.

Lemma from_input_ok input d ctx : exists g, from_input input d ctx = Ok g.
Proof. rewrite from_input_eq. unfold complete_virtual_nodes. destruct (length input); eauto. Qed.

Lemma from_input_has input d ctx g : from_input input d ctx = Ok g ->
  length g = length input /\ swf g /\
  forall j k, has g j k <->
    has (g3_of input d ctx) j k \/
    (S j = length input /\ exists i, i < j /\ (exists k', has (g3_of input d ctx) i k') /\ k = KVirtual (slice input (S i) j)).
Proof.
  rewrite from_input_eq. destruct (length input) as [|last] eqn:El.
  - unfold complete_virtual_nodes. rewrite El. intro H; inversion H; subst g; clear H.
    rewrite g3_length. split; [assumption|]. split; [apply swf_g3|]. intros j k. split; [auto|].
    intros [H|(H & _)]; [assumption|discriminate].
  - rewrite (complete_virtual_nodes_eq _ _ last El). intro H; inversion H; subst g; clear H.
    split; [|split].
    + rewrite (fold_length (fun i g => vstep input last g i)) by (intros; apply vstep_length).
      rewrite g3_length. assumption.
    + apply (fold_inv swf (fun i g => vstep input last g i)); [intros; apply swf_vstep; assumption|apply swf_g3].
    + intros j k. rewrite has_fold_vstep.
      * rewrite g3_length, El. split; (intros [H|H]; [left; assumption|right]).
        -- destruct H as (-> & _ & i & Hi & Hn & ->). split; [reflexivity|]. exists i.
           apply in_rev, in_seq in Hi. repeat split; auto; lia.
        -- destruct H as (Hj & i & Hi & Hn & ->). assert (j = last) by lia. subst j. repeat split; auto.
           exists i. split; [apply -> in_rev; apply in_seq; lia|auto].
      * intros i Hi. apply in_rev, in_seq in Hi. lia.
Qed.

(** * The invariant of a finished lattice; it only speaks about kinds and pointers, hence survives [same_shape] *)

Record lat_ok (input : str) (d : dict) (ctx : context) (g : graph) : Prop := {
  lo_len : length g = length input;
  lo_wf : graph_wf g;
  lo_word : forall j w, has g j (KWord w) ->
     j < length input /\ exists s, s <= j /\ w_reading w = slice input s j /\
       (In w (d_std d) \/ (In w (d_anc d) /\ (s = 0 -> head_mergeable ctx (w_speech w) = true)));
  lo_virt : forall j s, has g j (KVirtual s) ->
     S j = length input /\ exists p, p < j /\ s = slice input (S p) j /\
       (exists k, has g p k) /\ (forall k, has g p k -> exists w, k = KWord w)
}.

Lemma g3_words input d ctx j k : has (g3_of input d ctx) j k ->
  j < length input /\ exists w, k = KWord w /\ exists s, s <= j /\ w_reading w = slice input s j /\
       (In w (d_std d) \/ (In w (d_anc d) /\ (s = 0 -> head_mergeable ctx (w_speech w) = true))).
Proof.
  intro H. apply has_g3 in H as [H|(Ha & Hm)].
  - apply has_g2 in H as (Hl & w & s & -> & Hw & Hs & Hr & _). split; [assumption|]. exists w. split; [reflexivity|].
    exists s. auto.
  - apply has_find_ancillary in Ha as (Hl & i & w & Hi & Hw & Hr & ->). split; [assumption|]. exists w. split; [reflexivity|].
    exists i. repeat split; auto. right. split; [assumption|]. intros ->.
    destruct Hm as [(_ & w' & Hk & Hh)|(Hnz & _)]; [inversion Hk; subst; assumption|].
    cbn [klen] in Hnz. rewrite Hr, slice_length in Hnz by assumption. lia.
Qed.

Lemma word_klen input j w s : j < length input -> s <= j -> w_reading w = slice input s j ->
  klen (KWord w) = S j - s.
Proof. intros Hl Hs Hr. cbn [klen]. rewrite Hr. apply slice_length. assumption. Qed.

Lemma from_input_lat_ok input d ctx g : from_input input d ctx = Ok g -> lat_ok input d ctx g.
Proof.
  intro H. apply from_input_has in H as (Hlen & Hswf & Hhas).
  assert (Hword : forall j w, has g j (KWord w) -> has (g3_of input d ctx) j (KWord w)).
  { intros j w Hw. apply Hhas in Hw as [Hw|(_ & i & _ & _ & Hk)]; [assumption|discriminate]. }
  assert (Hklen : forall j k, has g j k -> 1 <= klen k <= S j).
  { intros j k Hk. apply Hhas in Hk as [Hk|(Hj & i & Hi & _ & ->)].
    - apply g3_words in Hk as (Hl & w & -> & s & Hs & Hr & _). rewrite (word_klen _ _ _ _ Hl Hs Hr). lia.
    - cbn [klen]. rewrite slice_length by lia. lia. }
  constructor.
  - assumption.
  - intros i l Hi j n Hj. destruct (Hswf i l Hi j n Hj) as [He Hs]. split; [assumption|]. split; [assumption|].
    rewrite n_len_klen. apply Hklen. exists n. split; [|reflexivity].
    rewrite (nth_error_nth_nil _ _ _ Hi). eapply nth_error_In; eassumption.
  - intros j w Hw. apply Hword, g3_words in Hw as (Hl & w' & Hk & Hrest). inversion Hk; subst w'. auto.
  - intros j s Hs. apply Hhas in Hs as [Hs|(Hj & i & Hi & Hn & Hk)].
    + apply g3_words in Hs as (_ & w & Hk & _). discriminate Hk.
    + split; [assumption|]. exists i. inversion Hk; subst s. repeat split; auto.
      * destruct Hn as (k' & Hk'). exists k'. apply Hhas. left; assumption.
      * intros k' Hk'. apply Hhas in Hk' as [Hk'|(Hj' & _)]; [|lia].
        apply g3_words in Hk' as (_ & w & -> & _). eauto.
Qed.

Lemma same_node_sym a b : same_node a b -> same_node b a.
Proof. intros (H1 & H2 & H3). repeat split; congruence. Qed.

Lemma same_shape_sym g g' : same_shape g g' -> same_shape g' g.
Proof. apply Forall2_sym. intros l l'. apply Forall2_sym. apply same_node_sym. Qed.

Lemma same_shape_length g g' : same_shape g g' -> length g = length g'.
Proof. intro H. induction H; cbn [length]; congruence. Qed.

Lemma has_shape g g' j k : same_shape g g' -> has g j k -> has g' j k.
Proof.
  intros Hs (n & Hin & Hk). pose proof (Forall2_nth_nil _ _ _ j Hs) as Hrow.
  destruct (Forall2_In_l _ _ _ _ Hrow Hin) as (n' & Hin' & (_ & _ & Hk')). exists n'. split; [assumption|congruence].
Qed.

Lemma has_shape_iff g g' j k : same_shape g g' -> has g j k <-> has g' j k.
Proof. intro Hs. split; apply has_shape; [assumption|apply same_shape_sym; assumption]. Qed.

Lemma graph_wf_shape g g' : same_shape g g' -> graph_wf g -> graph_wf g'.
Proof.
  intros Hs Hw i l' Hi j n' Hj.
  destruct (Forall2_nth_error_r _ _ _ _ _ Hs Hi) as (l & Hl & Hll).
  destruct (Forall2_nth_error_r _ _ _ _ _ Hll Hj) as (n & Hn & (H1 & H2 & H3)).
  destruct (Hw i l Hl j n Hn) as (He & Hsl & Hlen). unfold node_ok.
  rewrite n_len_klen in *. rewrite <- H1, <- H2, <- H3. auto.
Qed.

Lemma lat_ok_shape input d ctx g g' : same_shape g g' -> lat_ok input d ctx g -> lat_ok input d ctx g'.
Proof.
  intros Hs [H1 H2 H3 H4]. pose proof (same_shape_sym _ _ Hs) as Hs'. constructor.
  - rewrite <- (same_shape_length _ _ Hs). assumption.
  - apply (graph_wf_shape _ _ Hs H2).
  - intros j w Hw. apply H3. apply (has_shape _ _ _ _ Hs' Hw).
  - intros j s Hv. destruct (H4 j s (has_shape _ _ _ _ Hs' Hv)) as (Hj & p & Hp & Hr & (k & Hk) & Hall).
    split; [assumption|]. exists p. repeat split; auto.
    + exists k. apply (has_shape _ _ _ _ Hs Hk).
    + intros k' Hk'. apply Hall. apply (has_shape _ _ _ _ Hs' Hk').
Qed.

Lemma lat_ok_from_input input d ctx g g' : from_input input d ctx = Ok g -> same_shape g g' -> lat_ok input d ctx g'.
Proof. intros H Hs. apply (lat_ok_shape _ _ _ _ _ Hs). apply from_input_lat_ok. assumption. Qed.

(** * T1 *)

Theorem from_input_total input d ctx :
  exists g, from_input input d ctx = Ok g /\ length g = length input /\ graph_wf g.
Proof.
  destruct (from_input_ok input d ctx) as [g Hg]. exists g. split; [assumption|].
  destruct (from_input_lat_ok _ _ _ _ Hg) as [H1 H2 _ _]. auto.
Qed.

(** * T6: the context only matters through [head_mergeable] *)

Lemma is_mergeable_ctx_ext g c c' n : (forall sp, head_mergeable c sp = head_mergeable c' sp) ->
  is_mergeable g c n = is_mergeable g c' n.
Proof. intro H. unfold is_mergeable. destruct (n_start n =? 0); [|reflexivity]. destruct (n_kind n); [apply H|reflexivity]. Qed.

Lemma from_input_ctx_ext input d c c' : (forall sp, head_mergeable c sp = head_mergeable c' sp) ->
  from_input input d c = from_input input d c'.
Proof.
  intro H. unfold from_input. cbv zeta. f_equal. unfold merge_ancillaries.
  apply fold_left_ext_in. intros g n _. rewrite (is_mergeable_ctx_ext g c c' n H). reflexivity.
Qed.

Lemma head_mergeable_proper_normal sp : head_mergeable CProper sp = head_mergeable CNormal sp.
Proof. destruct sp as [[]|[] r| | | | | |[]| | | |[]]; reflexivity. Qed.

Theorem proper_same_lattice input d : from_input input d CProper = from_input input d CNormal.
Proof. apply from_input_ctx_ext. apply head_mergeable_proper_normal. Qed.
