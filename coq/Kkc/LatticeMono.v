(** The lattice only grows with the dictionary and with head-mergeability (C16 / C07):
    every node kind of the small lattice is in the big one at the same place, and every complete
    chain has a counterpart with the same kinds.  No axioms. *)
From Coq Require Import List Arith Lia ZArith Bool ZifyBool.
From Chokan Require Import Base.Str Base.ListUtil Dic.Speech Gen.SpeechNames Kkc.Context Gen.ScoreTables
  Kkc.Lattice Kkc.Score Kkc.Heap Kkc.Search Kkc.Paths Kkc.LatticeWf Kkc.LatticePaths.
Import ListNotations.

Definition dict_le (d d' : dict) : Prop := incl (d_std d) (d_std d') /\ incl (d_anc d) (d_anc d').
Definition ctx_le (c c' : context) : Prop := forall sp, head_mergeable c sp = true -> head_mergeable c' sp = true.

Lemma ctx_le_normal c : ctx_le CNormal c.
Proof.
  intros sp H. destruct sp as [[]|[] r| | | | | |[]| | | |[]]; try discriminate H; destruct c; try reflexivity; discriminate H.
Qed.

Section Mono.
  Variables (input : str) (d d' : dict) (c c' : context).
  Hypothesis Hd : dict_le d d'.
  Hypothesis Hc : ctx_le c c'.

  Lemma anc_mono j k : has (find_ancillary input d) j k -> has (find_ancillary input d') j k.
  Proof.
    rewrite !has_find_ancillary. intros (Hl & i & w & Hi & Hw & Hr & ->). split; [assumption|].
    exists i, w. repeat split; auto. apply (proj2 Hd). assumption.
  Qed.

  Lemma std_start_mono s : std_start input d s -> std_start input d' s.
  Proof.
    intros [->|(e & pw & -> & H1 & H2 & H3)]; [left; reflexivity|right].
    exists e, pw. repeat split; auto. apply anc_mono. assumption.
  Qed.

  Lemma g2_mono j k : has (g2_of input d) j k -> has (g2_of input d') j k.
  Proof.
    rewrite !has_g2. intros (Hl & w & s & -> & Hw & Hs & Hr & Hst). split; [assumption|].
    exists w, s. repeat split; auto; [apply (proj1 Hd); assumption|apply std_start_mono; assumption].
  Qed.

  Lemma g3_mono j : forall k, has (g3_of input d c) j k -> has (g3_of input d' c') j k.
  Proof.
    induction j as [j IH] using lt_wf_ind. intros k Hk.
    apply has_g3 in Hk as [Hk|(Ha & Hm)]; apply has_g3; [left; apply g2_mono; assumption|right].
    split; [apply anc_mono; assumption|]. pose proof (anc_klen _ _ _ _ Ha) as Hlen.
    destruct Hm as [(Hz & w & -> & Hh)|(Hnz & k' & Hk' & Hsup)].
    - left. split; [assumption|]. exists w. split; [reflexivity|]. apply Hc. assumption.
    - right. split; [assumption|]. exists k'. split; [|assumption]. apply IH; [lia|assumption].
  Qed.

  Lemma final_mono g g' : from_input input d c = Ok g -> from_input input d' c' = Ok g' ->
    forall j k, has g j k -> has g' j k.
  Proof.
    intros Hg Hg' j k Hk.
    destruct (from_input_has _ _ _ _ Hg) as (_ & _ & Hhas). destruct (from_input_has _ _ _ _ Hg') as (_ & _ & Hhas').
    apply Hhas'. apply Hhas in Hk as [Hk|(Hj & i & Hi & (k' & Hn) & ->)].
    - left. apply g3_mono. assumption.
    - right. split; [assumption|]. exists i. split; [assumption|]. split; [|reflexivity]. exists k'. apply g3_mono. assumption.
  Qed.
End Mono.

(** * Transfer of chains between two well-formed graphs of the same length when kinds are included *)

Definition pmatch (g' : graph) (p p' : pnode) : Prop :=
  match p, p' with
  | PBos, PBos => True
  | PEos, PEos => True
  | PNode n, PNode n' => n_kind n = n_kind n' /\ In n' (nth (n_end n) g' [])
  | _, _ => False
  end.

Lemma link_bos' g j n : graph_wf g -> In n (nth j g []) -> j < klen (n_kind n) -> In PBos (previous_nodes g (PNode n)).
Proof.
  intros Hw Hin Hk. apply (link_bos _ j); [assumption|assumption|].
  destruct (wf_In _ _ _ Hw Hin) as [_ Hlen]. rewrite n_len_klen in Hlen. lia.
Qed.

Lemma transfer_aux g g' : graph_wf g -> graph_wf g' -> length g = length g' ->
  (forall j k, has g j k -> has g' j k) ->
  forall ch p p', chain_linked g (p :: ch) -> pmatch g' p p' ->
  exists ch', chain_linked g' (p' :: ch') /\ kinds ch' = kinds ch.
Proof.
  intros Hw Hw' Hlen Hsub. induction ch as [|q r IH]; intros p p' Hch Hm.
  - cbn in Hch. subst p. destruct p'; try contradiction. exists []. split; reflexivity.
  - rewrite chain_linked_cons in Hch. destruct Hch as [Hin Hch]. destruct q as [| |m].
    + destruct Hin.
    + destruct (IH PEos PEos Hch I) as (ch'' & Hc'' & Hk''). exists (PEos :: ch''). split.
      * rewrite chain_linked_cons. split; [|assumption]. destruct p as [| |n].
        -- destruct p'; try contradiction. apply prev_bos_eos in Hin. cbn [previous_nodes]. rewrite <- Hlen, Hin. left; reflexivity.
        -- elim (prev_not_eos _ _ Hin).
        -- destruct p' as [| |n']; try contradiction. destruct Hm as [_ Hn'].
           apply prev_eos_in in Hin as (k & Hk & Hnk). destruct (wf_In _ _ _ Hw Hnk) as [He _]. rewrite He in Hn'.
           apply (link_eos _ k); [assumption|congruence].
      * unfold kinds in *. cbn [map]. f_equal. assumption.
    + destruct (chain_head_in _ _ _ Hch) as [jm Hjm]. destruct (wf_In _ _ _ Hw Hjm) as [Hem Hlm].
      destruct (Hsub jm (n_kind m)) as (m' & Hm' & Hkm'); [exists m; auto|].
      assert (Hmm : pmatch g' (PNode m) (PNode m')) by (split; [congruence|rewrite Hem; assumption]).
      destruct (IH (PNode m) (PNode m') Hch Hmm) as (ch'' & Hc'' & Hk''). exists (PNode m' :: ch''). split.
      * rewrite chain_linked_cons. split; [|assumption]. rewrite n_len_klen in *. destruct p as [| |n].
        -- destruct p'; try contradiction. apply prev_bos_node in Hin. rewrite n_len_klen in Hin.
           apply (link_bos' _ jm); [assumption|assumption|]. rewrite Hkm'. lia.
        -- elim (prev_not_eos _ _ Hin).
        -- destruct p' as [| |n']; try contradiction. destruct Hm as [_ Hn'].
           apply prev_node_in in Hin as [Hge Hnm]. rewrite n_len_klen in *. destruct (wf_In _ _ _ Hw Hnm) as [He _].
           rewrite He in Hn'. apply (link_node _ (n_end m - klen (n_kind m)) jm); auto. rewrite Hkm'. lia.
      * unfold kinds in *. cbn [map]. rewrite Hkm'. f_equal. assumption.
Qed.

Theorem chain_transfer input d d' c c' g g1 g' g1' ch :
  dict_le d d' -> ctx_le c c' ->
  from_input input d c = Ok g -> same_shape g g1 ->
  from_input input d' c' = Ok g' -> same_shape g' g1' ->
  complete_chain g1 ch ->
  exists ch', complete_chain g1' ch' /\ kinds ch' = kinds ch.
Proof.
  intros Hd Hc Hg Hs Hg' Hs' [Hhd Hch].
  pose proof (lat_ok_from_input _ _ _ _ _ Hg Hs) as Hok. pose proof (lat_ok_from_input _ _ _ _ _ Hg' Hs') as Hok'.
  destruct ch as [|p rest]; [destruct Hch|]. cbn [hd] in Hhd. subst p.
  destruct (transfer_aux g1 g1' (lo_wf _ _ _ _ Hok) (lo_wf _ _ _ _ Hok')) with (ch := rest) (p := PBos) (p' := PBos)
    as (ch' & Hc' & Hk').
  - rewrite (lo_len _ _ _ _ Hok), (lo_len _ _ _ _ Hok'). reflexivity.
  - intros j k Hk. apply (has_shape _ _ _ _ Hs'). apply (final_mono input d d' c c' Hd Hc g g' Hg Hg').
    apply (has_shape _ _ _ _ (same_shape_sym _ _ Hs)). assumption.
  - assumption.
  - exact I.
  - exists (PBos :: ch'). split; [split; [reflexivity|assumption]|]. unfold kinds in *. cbn [map]. f_equal. assumption.
Qed.
