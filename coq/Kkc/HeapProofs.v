(** Correctness of the BinaryHeap replica of [Kkc/Heap.v] as a max-priority queue:
    push and pop preserve the heap order, are permutations, and pop returns a maximal element. *)
From Coq Require Import List Arith ZArith Lia Permutation.
From Coq Require Import ZifyNat.
From Chokan Require Import Base.Str Base.ListUtil Kkc.Heap.
Local Open Scope Z_scope.

Local Notation par i := ((i - 1) / 2)%nat.

(** * Index-function level: the heap invariants on [nat -> Z] *)

Definition ford (n : nat) (f : nat -> Z) : Prop :=
  forall i, (0 < i < n)%nat -> f i <= f (par i).

(** heap everywhere except at [pos] (the element at [pos] is arbitrary), with the children of
    [pos] bounded by the parent of [pos] *)
Definition hinv (n : nat) (f : nat -> Z) (pos : nat) : Prop :=
  forall i, (0 < i < n)%nat -> i <> pos ->
    (par i <> pos -> f i <= f (par i)) /\
    (par i = pos -> (0 < pos)%nat -> f i <= f (par pos)).

(** additionally the children of [pos] are bounded by [pos] *)
Definition uinv (n : nat) (f : nat -> Z) (pos : nat) : Prop :=
  hinv n f pos /\ forall i, (0 < i < n)%nat -> par i = pos -> f i <= f pos.

Definition fswap (f : nat -> Z) (i j : nat) : nat -> Z :=
  fun k => if (k =? j)%nat then f i else if (k =? i)%nat then f j else f k.

Lemma hinv_ext n f g pos : (forall k, g k = f k) -> hinv n f pos -> hinv n g pos.
Proof.
  intros E H i Hi Hip. rewrite !E. apply H; assumption.
Qed.

Lemma uinv_ext n f g pos : (forall k, g k = f k) -> uinv n f pos -> uinv n g pos.
Proof.
  intros E [H1 H2]. split.
  - eapply hinv_ext; eauto.
  - intros i Hi Hp. rewrite !E. apply H2; assumption.
Qed.

Lemma down_step n f pos c :
  hinv n f pos -> (c < n)%nat -> (c = 2 * pos + 1 \/ c = 2 * pos + 2)%nat ->
  (forall s, (s < n)%nat -> s <> c -> (s = 2 * pos + 1 \/ s = 2 * pos + 2)%nat -> f s <= f c) ->
  hinv n (fswap f pos c) c.
Proof.
  intros H Hc Hcc Hs i Hi Hic. unfold fswap.
  assert (Hpc : par c = pos) by lia.
  split; intros Hp.
  - destruct (Nat.eqb_spec i c) as [?|_]; [lia|].
    destruct (Nat.eqb_spec i pos) as [->|Hip].
    + destruct (Nat.eqb_spec (par pos) c) as [?|_]; [lia|].
      destruct (Nat.eqb_spec (par pos) pos) as [?|_]; [lia|].
      destruct (H c) as [_ H2]; [lia|lia|]. apply H2; lia.
    + destruct (Nat.eqb_spec (par i) c) as [?|_]; [lia|].
      destruct (Nat.eqb_spec (par i) pos) as [E|E].
      * apply Hs; lia.
      * apply (H i); lia.
  - intros Hc0.
    destruct (Nat.eqb_spec i c) as [?|_]; [lia|].
    destruct (Nat.eqb_spec i pos) as [?|_]; [lia|].
    rewrite Hpc.
    destruct (Nat.eqb_spec pos c) as [?|_]; [lia|].
    rewrite Nat.eqb_refl.
    destruct (H i) as [H1 _]; [lia|lia|]. rewrite Hp in H1. apply H1. lia.
Qed.

Lemma up_step n f pos :
  uinv n f pos -> (0 < pos < n)%nat -> f (par pos) < f pos ->
  uinv n (fswap f pos (par pos)) (par pos).
Proof.
  intros [H Hch] Hpos Hlt.
  assert (Hq : f (par pos) <= f pos) by lia.
  assert (Hqq : (0 < par pos)%nat -> f (par pos) <= f (par (par pos))).
  { intros H0. apply (H (par pos)); lia. }
  split.
  - intros i Hi Hiq. unfold fswap. split; intros Hp.
    + destruct (Nat.eqb_spec i (par pos)) as [?|_]; [lia|].
      destruct (Nat.eqb_spec i pos) as [?|Hip]; [lia|].
      destruct (Nat.eqb_spec (par i) (par pos)) as [?|_]; [lia|].
      destruct (Nat.eqb_spec (par i) pos) as [E|E].
      * destruct (H i) as [_ H2]; [lia|lia|]. apply H2; lia.
      * apply (H i); lia.
    + intros H0.
      destruct (Nat.eqb_spec (par (par pos)) (par pos)) as [?|_]; [lia|].
      destruct (Nat.eqb_spec (par (par pos)) pos) as [?|_]; [lia|].
      destruct (Nat.eqb_spec i (par pos)) as [?|_]; [lia|].
      destruct (Nat.eqb_spec i pos) as [->|Hip].
      * apply Hqq; lia.
      * destruct (H i) as [H1 _]; [lia|lia|]. rewrite Hp in H1.
        specialize (H1 ltac:(lia)). specialize (Hqq H0). lia.
  - intros i Hi Hp. unfold fswap.
    rewrite Nat.eqb_refl.
    destruct (Nat.eqb_spec i (par pos)) as [?|_]; [lia|].
    destruct (Nat.eqb_spec i pos) as [->|Hip]; [lia|].
    destruct (H i) as [H1 _]; [lia|lia|]. rewrite Hp in H1.
    specialize (H1 ltac:(lia)). lia.
Qed.

Lemma up_stop0 n f : uinv n f 0%nat -> ford n f.
Proof.
  intros [H Hch] i Hi.
  destruct (Nat.eq_dec (par i) 0) as [E|E].
  - rewrite E. apply Hch; lia.
  - apply (H i); lia.
Qed.

Lemma up_stop n f pos :
  uinv n f pos -> (0 < pos < n)%nat -> f pos <= f (par pos) -> ford n f.
Proof.
  intros [H Hch] Hpos Hle i Hi.
  destruct (Nat.eq_dec i pos) as [->|Hip]; [exact Hle|].
  destruct (Nat.eq_dec (par i) pos) as [E|E].
  - destruct (H i) as [_ H2]; [lia|lia|].
    specialize (H2 E ltac:(lia)). specialize (Hch i Hi E). rewrite E. lia.
  - apply (H i); lia.
Qed.

Lemma hinv_leaf n f pos : hinv n f pos -> (n <= 2 * pos + 1)%nat -> uinv n f pos.
Proof.
  intros H Hn. split; [exact H|]. intros i Hi Hp. lia.
Qed.

Lemma ford_max n f : ford n f -> forall i, (i < n)%nat -> f i <= f 0%nat.
Proof.
  intros H i. induction i as [i IH] using lt_wf_ind. intros Hi.
  destruct (Nat.eq_dec i 0) as [->|Hi0]; [lia|].
  specialize (H i ltac:(lia)).
  specialize (IH (par i) ltac:(lia) ltac:(lia)). lia.
Qed.

(** * List level *)

Section HeapProofs.
  Context {A : Type}.
  Variable prio : A -> Z.

  Definition heap_ordered (d : list A) : Prop :=
    forall i x y, (0 < i)%nat -> nth_error d i = Some x ->
      nth_error d ((i - 1) / 2) = Some y -> prio x <= prio y.

  Section WithDefault.
    Variable dflt : A.

    Definition prio_at (d : list A) (i : nat) : Z := prio (nth i d dflt).
    Definition hord (d : list A) : Prop := ford (length d) (prio_at d).

    Lemma nth_ne (l : list A) k :
      nth k l dflt = match nth_error l k with Some x => x | None => dflt end.
    Proof. revert k; induction l as [|a l IH]; intros [|k]; cbn; auto. Qed.

    Lemma nth_error_lt (l : list A) k :
      (k < length l)%nat -> nth_error l k = Some (nth k l dflt).
    Proof. apply nth_error_nth'. Qed.

    Lemma heap_ordered_hord d : heap_ordered d <-> hord d.
    Proof.
      split.
      - intros H i Hi. unfold prio_at.
        apply (H i); [lia | apply nth_error_lt; lia | apply nth_error_lt; lia].
      - intros H i x y Hi Hx Hy.
        assert (Hlt : (i < length d)%nat) by (apply nth_error_Some; congruence).
        specialize (H i ltac:(lia)). unfold prio_at in H.
        rewrite (nth_error_lt d i) in Hx by lia.
        rewrite (nth_error_lt d (par i)) in Hy by lia.
        congruence.
    Qed.

    Lemma swap_length (d : list A) i j : length (swap d i j) = length d.
    Proof.
      unfold swap. destruct (nth_error d i), (nth_error d j); auto.
      now rewrite !upd_nth_length.
    Qed.

    Lemma nth_swap (d : list A) i j k :
      (i < length d)%nat -> (j < length d)%nat ->
      nth k (swap d i j) dflt =
        if (k =? j)%nat then nth i d dflt
        else if (k =? i)%nat then nth j d dflt else nth k d dflt.
    Proof.
      intros Hi Hj. unfold swap.
      rewrite (nth_error_lt d i Hi), (nth_error_lt d j Hj).
      rewrite (nth_ne _ k).
      destruct (Nat.eqb_spec k j) as [->|Hkj].
      - rewrite nth_error_upd_nth_eq.
        rewrite nth_error_lt by (rewrite upd_nth_length; auto). reflexivity.
      - rewrite nth_error_upd_nth_neq by auto.
        destruct (Nat.eqb_spec k i) as [->|Hki].
        + rewrite nth_error_upd_nth_eq, (nth_error_lt d i Hi). reflexivity.
        + rewrite nth_error_upd_nth_neq by auto. now rewrite <- nth_ne.
    Qed.

    Lemma prio_at_swap (d : list A) i j k :
      (i < length d)%nat -> (j < length d)%nat ->
      prio_at (swap d i j) k = fswap (prio_at d) i j k.
    Proof.
      intros Hi Hj. unfold prio_at, fswap. rewrite nth_swap by assumption.
      destruct (k =? j)%nat; [reflexivity|]. destruct (k =? i)%nat; reflexivity.
    Qed.

    Lemma swap_perm (d : list A) i j :
      (i < length d)%nat -> (j < length d)%nat -> Permutation d (swap d i j).
    Proof.
      intros Hi Hj. apply (Permutation_nth d (swap d i j) dflt). cbv zeta.
      split; [apply swap_length|].
      exists (fun k => if (k =? j)%nat then i else if (k =? i)%nat then j else k).
      split; [|split].
      - intros k Hk. destruct (Nat.eqb_spec k j), (Nat.eqb_spec k i); lia.
      - intros x y Hx Hy.
        destruct (Nat.eqb_spec x j), (Nat.eqb_spec x i),
                 (Nat.eqb_spec y j), (Nat.eqb_spec y i); lia.
      - intros k Hk. rewrite nth_swap by assumption.
        destruct (Nat.eqb_spec k j), (Nat.eqb_spec k i); reflexivity.
    Qed.

    (** ** sift_down_to_bottom *)
    Lemma sift_down_spec fuel : forall d pos d' pos',
      (pos < length d)%nat -> (length d - pos <= fuel)%nat ->
      hinv (length d) (prio_at d) pos ->
      sift_down prio fuel d pos = (d', pos') ->
      Permutation d d' /\ length d' = length d /\ (pos' < length d')%nat /\
      hinv (length d') (prio_at d') pos' /\ (length d' <= 2 * pos' + 1)%nat.
    Proof.
      induction fuel as [|fuel IH]; intros d pos d' pos' Hpos Hfuel Hinv E.
      - lia.
      - cbn [sift_down] in E.
        destruct (Nat.leb_spec (2 * pos + 1 + 2) (length d)) as [Hc|Hc].
        + rewrite (nth_error_lt d (2 * pos + 1)),
                  (nth_error_lt d (2 * pos + 1 + 1)) in E by lia.
          assert (Hgo : forall c,
            (c = 2 * pos + 1 \/ c = 2 * pos + 2)%nat ->
            (forall s, (s < length d)%nat -> s <> c ->
                       (s = 2 * pos + 1 \/ s = 2 * pos + 2)%nat -> prio_at d s <= prio_at d c) ->
            sift_down prio fuel (swap d pos c) c = (d', pos') ->
            Permutation d d' /\ length d' = length d /\ (pos' < length d')%nat /\
            hinv (length d') (prio_at d') pos' /\ (length d' <= 2 * pos' + 1)%nat).
          { intros c Hcc Hs E'.
            specialize (IH (swap d pos c) c d' pos').
            rewrite swap_length in IH.
            destruct IH as (Hp & Hl & Hlt & Hh & Hleaf); [lia | lia | | exact E' | ].
            - eapply hinv_ext; [intros k; apply prio_at_swap; lia|].
              apply down_step; auto; lia.
            - split; [|auto].
              eapply perm_trans; [apply (swap_perm d pos c); lia | exact Hp]. }
          unfold hle in E.
          destruct (Z.leb_spec (prio (nth (2 * pos + 1) d dflt))
                               (prio (nth (2 * pos + 1 + 1) d dflt))) as [Hab|Hab].
          * apply (Hgo (2 * pos + 1 + 1)%nat); [lia | | exact E].
            intros s Hs Hsc Hss. assert (s = 2 * pos + 1)%nat by lia. subst s.
            exact Hab.
          * apply (Hgo (2 * pos + 1)%nat); [lia | | exact E].
            intros s Hs Hsc Hss. assert (s = 2 * pos + 1 + 1)%nat by lia. subst s.
            unfold prio_at. lia.
        + destruct (Nat.eqb_spec (2 * pos + 1 + 1) (length d)) as [Hc1|Hc1].
          * injection E as <- <-. rewrite swap_length.
            split; [apply swap_perm; lia|].
            split; [reflexivity|]. split; [lia|]. split; [|lia].
            eapply hinv_ext; [intros k; apply prio_at_swap; lia|].
            apply down_step; auto; try lia.
          * injection E as <- <-.
            split; [apply Permutation_refl|].
            split; [reflexivity|]. split; [lia|]. split; [exact Hinv|lia].
    Qed.

    (** ** sift_up *)
    Lemma sift_up_spec fuel : forall d pos,
      (pos < length d)%nat -> (pos <= fuel)%nat -> uinv (length d) (prio_at d) pos ->
      hord (sift_up prio fuel d 0 pos) /\ Permutation d (sift_up prio fuel d 0 pos).
    Proof.
      induction fuel as [|fuel IH]; intros d pos Hpos Hfuel Hinv.
      - cbn [sift_up]. assert (pos = 0)%nat by lia. subst pos.
        split; [apply up_stop0; exact Hinv | apply Permutation_refl].
      - cbn [sift_up].
        destruct (Nat.leb_spec pos 0) as [H0|H0].
        + assert (pos = 0)%nat by lia. subst pos.
          split; [apply up_stop0; exact Hinv | apply Permutation_refl].
        + rewrite (nth_error_lt d pos), (nth_error_lt d (par pos)) by lia.
          unfold hle.
          destruct (Z.leb_spec (prio (nth pos d dflt)) (prio (nth (par pos) d dflt)))
            as [Hle|Hgt].
          * split; [|apply Permutation_refl].
            apply (up_stop _ _ pos); [exact Hinv | lia | exact Hle].
          * specialize (IH (swap d pos (par pos)) (par pos)).
            rewrite swap_length in IH.
            destruct IH as [Ho Hp]; [lia | lia | | ].
            -- eapply uinv_ext; [intros k; apply prio_at_swap; lia|].
               apply up_step; [exact Hinv | lia | exact Hgt].
            -- split; [exact Ho|].
               eapply perm_trans; [apply (swap_perm d pos (par pos)); lia | exact Hp].
    Qed.

    Lemma heap_push_spec_d d x :
      hord d -> hord (heap_push prio d x) /\ Permutation (x :: d) (heap_push prio d x).
    Proof.
      intros H. unfold heap_push.
      destruct (sift_up_spec (length (d ++ [x])) (d ++ [x]) (length d)) as [Ho Hp].
      - rewrite app_length. cbn [length]. lia.
      - rewrite app_length. lia.
      - apply hinv_leaf; [|rewrite app_length; cbn [length]; lia].
        intros i Hi Hip. rewrite app_length in Hi. cbn [length] in Hi.
        split; [intros _|intros Hpi; lia].
        unfold prio_at. rewrite !app_nth1 by lia. apply (H i). lia.
      - split; [exact Ho|].
        eapply perm_trans; [apply Permutation_cons_append | exact Hp].
    Qed.

    Lemma hord_max d : hord d -> forall y, In y d -> prio y <= prio (nth 0 d dflt).
    Proof.
      intros H y Hy. destruct (In_nth d y dflt Hy) as (i & Hi & <-).
      apply (ford_max _ _ H i Hi).
    Qed.

    Lemma heap_pop_spec_d d x d' :
      hord d -> heap_pop prio d = Some (x, d') ->
      Permutation d (x :: d') /\ (forall y, In y d -> prio y <= prio x) /\ hord d'.
    Proof.
      intros H E. unfold heap_pop in E.
      destruct (rev d) as [|last r] eqn:Er; [discriminate|].
      assert (Hd : d = rev r ++ [last]).
      { rewrite <- (rev_involutive d), Er. reflexivity. }
      clear Er. subst d. rewrite removelast_last in E.
      destruct (rev r) as [|top rest].
      - injection E as <- <-. cbn [app].
        split; [apply Permutation_refl|]. split.
        + intros y [<-|[]]. lia.
        + intros i Hi. cbn [length] in Hi. lia.
      - destruct (sift_down prio (length (last :: rest)) (last :: rest) 0) as [d2 pos] eqn:Esd.
        injection E as <- <-.
        pose proof (hord_max _ H) as Hmax. cbn [app nth] in Hmax.
        assert (Hh0 : hinv (length (last :: rest)) (prio_at (last :: rest)) 0).
        { intros i Hi Hi0. cbn [length] in Hi.
          split; [intros Hpi | intros _ Hlt0; lia].
          specialize (H i). cbn [app length] in H. rewrite app_length in H.
          cbn [length] in H. specialize (H ltac:(lia)).
          unfold prio_at in *.
          destruct i as [|i']; [lia|].
          destruct (par (S i')) as [|p'] eqn:Epar; [lia|].
          cbn [nth] in *.
          rewrite !app_nth1 in H by lia. exact H. }
        destruct (sift_down_spec (length (last :: rest)) (last :: rest) 0%nat d2 pos)
          as (Hp & Hl & Hlt & Hh & Hleaf);
          [cbn [length]; lia | lia | exact Hh0 | exact Esd | ].
        destruct (sift_up_spec (length d2) d2 pos) as [Ho Hp2].
        + exact Hlt.
        + lia.
        + apply hinv_leaf; assumption.
        + split; [|split; [exact Hmax | exact Ho]].
          cbn [app]. apply perm_skip.
          eapply perm_trans; [|exact Hp2].
          eapply perm_trans; [|exact Hp].
          apply Permutation_sym, Permutation_cons_append.
    Qed.
  End WithDefault.

  Lemma heap_ordered_nil : heap_ordered [].
  Proof. intros i x y _ Hx. destruct i; discriminate. Qed.

  Lemma heap_push_spec d x :
    heap_ordered d ->
    heap_ordered (heap_push prio d x) /\ Permutation (x :: d) (heap_push prio d x).
  Proof.
    intros H. apply (heap_ordered_hord x) in H.
    destruct (heap_push_spec_d x d x H) as [Ho Hp].
    split; [apply (heap_ordered_hord x); exact Ho | exact Hp].
  Qed.

  Lemma heap_pop_none d : heap_pop prio d = None <-> d = [].
  Proof.
    split.
    - intros E. unfold heap_pop in E.
      destruct (rev d) as [|last r] eqn:Er.
      + rewrite <- (rev_involutive d), Er. reflexivity.
      + destruct (removelast d) as [|top rest]; [discriminate|].
        destruct (sift_down prio (length (last :: rest)) (last :: rest) 0); discriminate.
    - intros ->. reflexivity.
  Qed.

  Lemma heap_pop_spec d x d' :
    heap_ordered d -> heap_pop prio d = Some (x, d') ->
    Permutation d (x :: d') /\ (forall y, In y d -> prio y <= prio x) /\ heap_ordered d'.
  Proof.
    intros H E. apply (heap_ordered_hord x) in H.
    destruct (heap_pop_spec_d x d x d' H E) as (Hp & Hm & Ho).
    split; [exact Hp|]. split; [exact Hm|].
    apply (heap_ordered_hord x); exact Ho.
  Qed.
End HeapProofs.

Print Assumptions heap_push_spec.
Print Assumptions heap_pop_spec.
Print Assumptions heap_pop_none.
