(** Correctness of the backward A* n-best search ([Kkc/Search.v]) over a graph whose stored
    scores are the forward (Viterbi) scores.  Final statements are collected in Props/C02.v. *)
From Coq Require Import List Arith ZArith Lia Bool Permutation ZifyBool.
From Chokan Require Import Base.Str Base.ListUtil Dic.Speech Gen.SpeechNames Kkc.Context Gen.ScoreTables
  Kkc.Lattice Kkc.Score Kkc.Heap Kkc.Search Kkc.Paths Kkc.HeapProofs Kkc.ForwardProofs.
Local Open Scope Z_scope.

(** * Small list facts *)

Lemma mem_str_In s l : mem_str s l = true <-> In s l.
Proof.
  unfold mem_str. rewrite existsb_exists. split.
  - intros (x & Hx & He). apply str_eqb_spec in He. subst; exact Hx.
  - intros H; exists s; split; [exact H|apply str_eqb_refl].
Qed.

Lemma sorted_desc_snoc l x : sorted_desc l -> (forall y, In y l -> x <= y) -> sorted_desc (l ++ [x]).
Proof.
  induction l as [|a l IH]; intros Hs Hall.
  - cbn. split; exact I.
  - destruct Hs as [Ha Hs]. change ((a :: l) ++ [x]) with (a :: (l ++ [x])). split.
    + destruct l as [|b l]; cbn [app].
      * apply Hall; left; reflexivity.
      * exact Ha.
    + apply IH; [exact Hs|intros y Hy; apply Hall; right; exact Hy].
Qed.

Lemma list_sum_perm l l' : Permutation l l' -> list_sum l = list_sum l'.
Proof.
  intros H; induction H as [|x l l' H IH|x y l|l l' l'' H1 IH1 H2 IH2]; [reflexivity| | |congruence].
  - change (x + list_sum l = x + list_sum l')%nat. lia.
  - change (y + (x + list_sum l) = x + (y + list_sum l))%nat. lia.
Qed.

Lemma hd_app_single {A} (d : A) a h b : hd d (a ++ h :: b) = hd d (a ++ [h]).
Proof. destruct a; reflexivity. Qed.

(** pushing a list of elements one after the other *)
Lemma fold_push_spec {A} (prio : A -> Z) l : forall q, heap_ordered prio q ->
  heap_ordered prio (fold_left (heap_push prio) l q) /\ Permutation (l ++ q) (fold_left (heap_push prio) l q).
Proof.
  induction l as [|x l IH]; intros q Hq; cbn [fold_left app].
  - split; [exact Hq|apply Permutation_refl].
  - destruct (heap_push_spec prio q x Hq) as [Ho Hp].
    destruct (IH _ Ho) as [Ho' Hp']. split; [exact Ho'|].
    eapply Permutation_trans; [|exact Hp'].
    eapply Permutation_trans; [apply Permutation_middle|].
    apply Permutation_app_head. exact Hp.
Qed.

Section Search.
  Variable ctx : context.
  Variable f : freq.
  Variable g : graph.
  Variable n : nat.
  Hypothesis Hsc : scored_graph ctx f g.

  (** * Queue elements *)

  (** structural part: a linked chain down to EOS whose accumulated score is the chain score *)
  Definition qbase (c : cand) : Prop :=
    chain_linked g (c_chain c) /\ c_score c = chain_score ctx f (c_chain c).

  (** a queued partial chain: its head is BOS or a node of the graph, and its priority is its
      own score plus the forward score of its head *)
  Definition qok (c : cand) : Prop :=
    qbase c /\ cand_head c <> PEos /\ pn_in g (cand_head c)
    /\ c_prio c = sadd (c_score c) (pscore (cand_head c))
    /\ 0 <= c_prio c.

  Definition extends (p : list pnode) (c : cand) : Prop := exists pre, p = pre ++ c_chain c.

  Lemma qbase_chain c : qbase c -> exists h rest, c_chain c = h :: rest /\ cand_head c = h.
  Proof.
    intros [Hl _]. unfold cand_head. destruct (c_chain c) as [|h rest]; [destruct Hl|].
    exists h, rest. split; reflexivity.
  Qed.

  (** the priority bounds the score of every complete path through the queued chain *)
  Lemma extends_bound c p : qok c -> complete_chain g p -> extends p c -> chain_score ctx f p <= c_prio c.
  Proof.
    intros (Hb & Hne & Hin & Hp & H0) [Hhd Hpl] [pre ->].
    destruct (qbase_chain c Hb) as (h & rest & Hc & Hh). destruct Hb as [Hl Hs].
    rewrite Hh in *. rewrite Hc in *.
    destruct (sval_cases _ (chain_score_sval ctx f (pre ++ h :: rest))) as [Hneg|Hpos]; [lia|].
    rewrite chain_score_app in Hpos |- *.
    destruct (sadd_nonneg_inv _ _ Hpos) as (H1 & H2 & ->).
    assert (Hpre : prefix_to g (pre ++ [h]) h).
    { apply (linked_prefix g pre h rest Hpl). rewrite <- Hhd. symmetry. apply hd_app_single. }
    pose proof (prefix_bound ctx f g Hsc _ _ Hpre Hne Hin H1) as Hb.
    rewrite Hp, Hs. sadd_pos. lia.
  Qed.

  (** a chain headed by BOS is complete, its priority is its score, and nothing else extends it *)
  Lemma bos_complete c : qok c -> cand_head c = PBos ->
    complete_chain g (c_chain c) /\ c_prio c = chain_score ctx f (c_chain c)
    /\ (forall p, complete_chain g p -> extends p c -> p = c_chain c).
  Proof.
    intros (Hb & Hne & Hin & Hp & H0) Hbos.
    destruct (qbase_chain c Hb) as (h & rest & Hc & Hh). destruct Hb as [Hl Hs].
    rewrite Hh in *. subst h. split; [|split].
    - split; [rewrite Hc; reflexivity|exact Hl].
    - rewrite Hp in H0 |- *. destruct (sadd_nonneg_inv _ _ H0) as (H1 & _ & ->). cbn [pscore]. lia.
    - intros p [_ Hpl] [pre ->]. rewrite Hc in *.
      destruct pre as [|x pre] using rev_ind; [reflexivity|].
      rewrite <- app_assoc in Hpl. cbn [app] in Hpl.
      destruct (chain_linked_mid _ _ _ _ _ Hpl) as [Hx _]. destruct Hx.
  Qed.

  (** * Expansion *)

  Definition child (c : cand) (prev : pnode) : cand :=
    let next_score := sadd (sadd (edge_score ctx prev (cand_head c)) (node_score ctx f (cand_head c))) (c_score c) in
    {| c_chain := prev :: c_chain c; c_score := next_score; c_prio := sadd next_score (pscore prev) |}.

  Lemma in_expand c ch : In ch (expand ctx f g c) <->
    exists prev, In prev (previous_nodes g (cand_head c)) /\ 0 <= c_prio (child c prev) /\ ch = child c prev.
  Proof.
    unfold expand. rewrite in_flat_map. split.
    - intros (prev & Hprev & Hin). exists prev. split; [exact Hprev|].
      cbv zeta in Hin. fold (child c prev) in Hin.
      change (sadd (sadd (sadd (edge_score ctx prev (cand_head c)) (node_score ctx f (cand_head c))) (c_score c)) (pscore prev))
        with (c_prio (child c prev)) in Hin.
      destruct (Z.ltb_spec (c_prio (child c prev)) 0) as [Hlt|Hge]; [destruct Hin|].
      destruct Hin as [<-|[]]. split; [exact Hge|reflexivity].
    - intros (prev & Hprev & Hge & ->). exists prev. split; [exact Hprev|].
      cbv zeta.
      change (sadd (sadd (sadd (edge_score ctx prev (cand_head c)) (node_score ctx f (cand_head c))) (c_score c)) (pscore prev))
        with (c_prio (child c prev)).
      destruct (Z.ltb_spec (c_prio (child c prev)) 0) as [Hlt|_]; [lia|]. left; reflexivity.
  Qed.

  Lemma child_qok c prev : qbase c -> In prev (previous_nodes g (cand_head c)) -> 0 <= c_prio (child c prev) ->
    qok (child c prev).
  Proof.
    intros Hb Hprev H0.
    destruct (qbase_chain c Hb) as (h & rest & Hc & Hh). destruct Hb as [Hl Hs].
    destruct (previous_in _ _ _ Hprev) as [Hpin Hpne].
    rewrite Hh in Hprev.
    unfold qok, qbase, cand_head. cbn [child c_chain c_score c_prio hd] in *.
    repeat split; try assumption.
    - rewrite Hc in Hl |- *. apply chain_linked_cons_iff. split; assumption.
    - rewrite Hh, Hs, Hc. rewrite chain_score_cons2. reflexivity.
  Qed.

  (** children never exceed their parent (the parent's head carries an exact forward score) *)
  Lemma child_le c prev : qok c -> In prev (previous_nodes g (cand_head c)) -> 0 <= c_prio (child c prev) ->
    c_prio (child c prev) <= c_prio c.
  Proof.
    intros (Hb & Hne & Hin & Hp & H0) Hprev Hc0.
    destruct (cand_head c) as [| |v] eqn:Hh; [destruct Hprev|congruence|].
    cbn [child c_prio] in *. rewrite Hh in Hc0 |- *. cbn [pn_in pscore] in *.
    pose proof (via_le ctx f g Hsc v prev Hin Hprev) as Hvia. unfold via in Hvia.
    destruct (sadd_nonneg_inv _ _ Hc0) as (H1 & H2 & ->).
    destruct (sadd_nonneg_inv _ _ H1) as (H3 & H4 & ->).
    destruct (sadd_nonneg_inv _ _ H3) as (H5 & H6 & ->).
    sadd_pos_in Hvia. rewrite Hp. rewrite Hp in H0. destruct (sadd_nonneg_inv _ _ H0) as (_ & _ & ->). lia.
  Qed.

  (** every connectable complete path through [c] goes through a pushed child of [c] *)
  Lemma child_cover c p : qbase c -> cand_head c <> PBos -> complete_chain g p -> connectable ctx f p ->
    extends p c -> exists ch, In ch (expand ctx f g c) /\ extends p ch.
  Proof.
    intros Hb Hnb [Hhd Hpl] Hconn [pre ->].
    destruct (qbase_chain c Hb) as (h & rest & Hc & Hh). destruct Hb as [Hl Hs].
    rewrite Hc in *.
    destruct pre as [|x pre _] using rev_ind.
    { cbn [app hd] in Hhd. congruence. }
    rewrite <- app_assoc in *. cbn [app] in *.
    destruct (chain_linked_mid _ _ _ _ _ Hpl) as [Hx _].
    exists (child c x). split.
    - apply in_expand. exists x. rewrite Hh. split; [exact Hx|]. split; [|reflexivity].
      unfold connectable in Hconn. rewrite chain_score_app in Hconn.
      destruct (sadd_nonneg_inv _ _ Hconn) as (H1 & H2 & _).
      assert (Hpre : prefix_to g (pre ++ [x]) x).
      { apply (linked_prefix g pre x (h :: rest) Hpl). rewrite <- Hhd. symmetry. apply hd_app_single. }
      destruct (previous_in _ _ _ Hx) as [Hxin Hxne].
      pose proof (prefix_bound ctx f g Hsc _ _ Hpre Hxne Hxin H1) as Hb.
      cbn [child c_prio]. rewrite Hh, Hs. rewrite chain_score_cons2 in H2.
      sadd_pos. lia.
    - exists pre. cbn [child c_chain]. rewrite Hc. reflexivity.
  Qed.

  (** * The loop invariant *)

  Record Inv0 (queue result : list cand) (seen : list str) : Prop := {
    inv_heap : heap_ordered c_prio queue;
    inv_queue : forall q, In q queue -> qok q;
    inv_result : forall r, In r result -> qok r /\ cand_head r = PBos;
    inv_seen : forall s, In s seen <-> In s (map cand_text result);
    inv_nodup : NoDup (map cand_text result);
    inv_sorted : sorted_desc (map c_prio result);
    inv_mono : forall r q, In r result -> In q queue -> c_prio q <= c_prio r;
    inv_cover : forall p, complete_chain g p -> connectable ctx f p ->
                  In (chain_text p) (map cand_text result) \/ exists q, In q queue /\ extends p q;
    inv_best : forall r p, In r result -> complete_chain g p -> chain_text p = cand_text r ->
                  chain_score ctx f p <= c_prio r
  }.

  Lemma pop_facts queue c q' : heap_ordered c_prio queue -> heap_pop c_prio queue = Some (c, q') ->
    heap_ordered c_prio q' /\ (forall x, In x queue <-> x = c \/ In x q')
    /\ (forall x, In x queue -> c_prio x <= c_prio c) /\ Permutation queue (c :: q').
  Proof.
    intros Ho Hpop. destruct (heap_pop_spec c_prio queue c q' Ho Hpop) as (Hperm & Hmax & Ho').
    split; [exact Ho'|]. split; [|split; [exact Hmax|exact Hperm]].
    intros x. split.
    - intros Hx. apply (Permutation_in _ Hperm) in Hx. destruct Hx as [<-|Hx]; [left; reflexivity|right; exact Hx].
    - intros Hx. apply (Permutation_in _ (Permutation_sym Hperm)). destruct Hx as [->|Hx]; [left; reflexivity|right; exact Hx].
  Qed.

  (** a complete chain popped again with a text already produced is dropped *)
  Lemma step_skip queue result seen c q' : Inv0 queue result seen -> heap_pop c_prio queue = Some (c, q') ->
    cand_head c = PBos -> In (cand_text c) seen -> Inv0 q' result seen.
  Proof.
    intros [H1 H2 H3 H4 H5 H6 H7 H8 H9] Hpop Hbos Hseen.
    destruct (pop_facts _ _ _ H1 Hpop) as (Ho' & Hmem & Hmax & _).
    constructor; try assumption.
    - intros q Hq. apply H2. apply Hmem. right; exact Hq.
    - intros r q Hr Hq. apply H7; [exact Hr|]. apply Hmem. right; exact Hq.
    - intros p Hp Hconn. destruct (H8 p Hp Hconn) as [Hin|(q & Hq & Hext)]; [left; exact Hin|].
      apply Hmem in Hq. destruct Hq as [->|Hq]; [|right; exists q; split; assumption].
      left. assert (Hqc : qok c) by (apply H2; apply Hmem; left; reflexivity).
      destruct (bos_complete c Hqc Hbos) as (_ & _ & Huniq).
      rewrite (Huniq p Hp Hext). apply H4. exact Hseen.
  Qed.

  (** a complete chain with a new text is appended to the result *)
  Lemma step_emit queue result seen c q' : Inv0 queue result seen -> heap_pop c_prio queue = Some (c, q') ->
    cand_head c = PBos -> ~ In (cand_text c) seen -> Inv0 q' (result ++ [c]) (cand_text c :: seen).
  Proof.
    intros [H1 H2 H3 H4 H5 H6 H7 H8 H9] Hpop Hbos Hseen.
    destruct (pop_facts _ _ _ H1 Hpop) as (Ho' & Hmem & Hmax & _).
    assert (Hcq : In c queue) by (apply Hmem; left; reflexivity).
    assert (Hqc : qok c) by (apply H2; exact Hcq).
    destruct (bos_complete c Hqc Hbos) as (Hcc & Hcp & Huniq).
    constructor.
    - exact Ho'.
    - intros q Hq. apply H2. apply Hmem. right; exact Hq.
    - intros r Hr. apply in_app_or in Hr. destruct Hr as [Hr|[<-|[]]]; [apply H3; exact Hr|split; assumption].
    - intros s. rewrite map_app, in_app_iff. cbn [map In]. rewrite H4. tauto.
    - rewrite map_app. cbn [map]. apply (Permutation_NoDup (Permutation_cons_append _ _)).
      constructor; [|exact H5]. rewrite <- H4. exact Hseen.
    - rewrite map_app. cbn [map]. apply sorted_desc_snoc; [exact H6|].
      intros y Hy. apply in_map_iff in Hy as (r & <- & Hr). apply H7; assumption.
    - intros r q Hr Hq. assert (Hq' : In q queue) by (apply Hmem; right; exact Hq).
      apply in_app_or in Hr. destruct Hr as [Hr|[<-|[]]]; [apply H7; assumption|apply Hmax; exact Hq'].
    - intros p Hp Hconn. rewrite map_app, in_app_iff. cbn [map In].
      destruct (H8 p Hp Hconn) as [Hin|(q & Hq & Hext)]; [left; left; exact Hin|].
      apply Hmem in Hq. destruct Hq as [->|Hq]; [|right; exists q; split; assumption].
      left. right. left. rewrite (Huniq p Hp Hext). reflexivity.
    - intros r p Hr Hp Htext. apply in_app_or in Hr. destruct Hr as [Hr|[<-|[]]]; [apply H9; assumption|].
      destruct (sval_cases _ (chain_score_sval ctx f p)) as [Hneg|Hpos]; [destruct Hqc as (_ & _ & _ & _ & H0); lia|].
      destruct (H8 p Hp Hpos) as [Hin|(q & Hq & Hext)].
      + exfalso. apply Hseen. apply H4. rewrite <- Htext. exact Hin.
      + pose proof (extends_bound q p (H2 q Hq) Hp Hext). pose proof (Hmax q Hq). lia.
  Qed.

  (** a partial chain is replaced by its children *)
  Lemma step_expand queue result seen c q' : Inv0 queue result seen -> heap_pop c_prio queue = Some (c, q') ->
    cand_head c <> PBos -> Inv0 (fold_left (heap_push c_prio) (expand ctx f g c) q') result seen.
  Proof.
    intros [H1 H2 H3 H4 H5 H6 H7 H8 H9] Hpop Hbos.
    destruct (pop_facts _ _ _ H1 Hpop) as (Ho' & Hmem & Hmax & _).
    assert (Hcq : In c queue) by (apply Hmem; left; reflexivity).
    assert (Hqc : qok c) by (apply H2; exact Hcq).
    destruct (fold_push_spec c_prio (expand ctx f g c) q' Ho') as [Ho2 Hperm].
    assert (Hmem2 : forall x, In x (fold_left (heap_push c_prio) (expand ctx f g c) q') <-> In x (expand ctx f g c) \/ In x q').
    { intros x. rewrite <- in_app_iff. split; apply Permutation_in; [apply Permutation_sym|]; exact Hperm. }
    constructor; try assumption.
    - intros q Hq. apply Hmem2 in Hq. destruct Hq as [Hq|Hq]; [|apply H2; apply Hmem; right; exact Hq].
      apply in_expand in Hq as (prev & Hprev & H0 & ->). apply child_qok; [apply Hqc|exact Hprev|exact H0].
    - intros r q Hr Hq. apply Hmem2 in Hq. destruct Hq as [Hq|Hq]; [|apply H7; [exact Hr|apply Hmem; right; exact Hq]].
      apply in_expand in Hq as (prev & Hprev & H0 & ->).
      pose proof (child_le c prev Hqc Hprev H0). pose proof (H7 r c Hr Hcq). lia.
    - intros p Hp Hconn. destruct (H8 p Hp Hconn) as [Hin|(q & Hq & Hext)]; [left; exact Hin|]. right.
      apply Hmem in Hq. destruct Hq as [->|Hq]; [|exists q; split; [apply Hmem2; right; exact Hq|exact Hext]].
      destruct (child_cover c p (proj1 Hqc) Hbos Hp Hconn Hext) as (ch & Hch & Hext').
      exists ch. split; [apply Hmem2; left; exact Hch|exact Hext'].
  Qed.

  (** * The result *)

  Definition Post (d : cand) (R : list cand) : Prop :=
    (length R <= n)%nat
    /\ NoDup (map cand_text R)
    /\ sorted_desc (map c_prio R)
    /\ (forall r, In r R ->
          complete_chain g (c_chain r) /\ c_prio r = chain_score ctx f (c_chain r) /\ 0 <= c_prio r
          /\ (forall p, complete_chain g p -> chain_text p = cand_text r -> chain_score ctx f p <= c_prio r))
    /\ (forall p, complete_chain g p -> connectable ctx f p ->
          In (chain_text p) (map cand_text R)
          \/ (length R = n /\ chain_score ctx f p <= c_prio (last R d))).

  Lemma post_of_inv0 d queue result seen : Inv0 queue result seen -> (length result <= n)%nat ->
    (queue = [] \/ (length result = n /\ forall q, In q queue -> c_prio q <= c_prio (last result d))) ->
    Post d result.
  Proof.
    intros [H1 H2 H3 H4 H5 H6 H7 H8 H9] Hlen Hend.
    split; [exact Hlen|]. split; [exact H5|]. split; [exact H6|]. split.
    - intros r Hr. destruct (H3 r Hr) as [Hq Hb]. destruct (bos_complete r Hq Hb) as (Hc & Hp & _).
      split; [exact Hc|]. split; [exact Hp|]. split; [apply Hq|]. intros p Hp' Ht. apply (H9 r p Hr Hp' Ht).
    - intros p Hp Hconn. destruct (H8 p Hp Hconn) as [Hin|(q & Hq & Hext)]; [left; exact Hin|].
      destruct Hend as [->|[Hn Hle]]; [destruct Hq|]. right. split; [exact Hn|].
      pose proof (extends_bound q p (H2 q Hq) Hp Hext). pose proof (Hle q Hq). lia.
  Qed.

  Lemma loop_post d : forall fuel queue result seen R, Inv0 queue result seen -> (length result < n)%nat ->
    nbest_loop fuel ctx f g n queue result seen = Some R -> Post d R.
  Proof.
    induction fuel as [|fuel IH]; intros queue result seen R HI Hlen Hrun; cbn [nbest_loop] in Hrun; [discriminate|].
    destruct (heap_pop c_prio queue) as [[c q']|] eqn:Hpop.
    - destruct (is_bos (cand_head c)) eqn:Hbos.
      + assert (Hb : cand_head c = PBos) by (destruct (cand_head c); cbn in Hbos; congruence).
        destruct (mem_str (cand_text c) seen) eqn:Hmem.
        * apply mem_str_In in Hmem. apply (IH q' result seen R); [eapply step_skip; eassumption|exact Hlen|exact Hrun].
        * assert (Hns : ~ In (cand_text c) seen) by (rewrite <- mem_str_In; congruence).
          pose proof (step_emit _ _ _ _ _ HI Hpop Hb Hns) as HI'.
          assert (Hl' : length (result ++ [c]) = S (length result)) by (rewrite app_length; cbn [length]; lia).
          destruct (Nat.leb_spec n (length (result ++ [c]))) as [Hge|Hlt].
          -- inversion Hrun; subst R. apply (post_of_inv0 d q' _ _ HI'); [lia|]. right. split; [lia|].
             intros q Hq. rewrite last_last. apply (inv_mono _ _ _ HI'); [apply in_or_app; right; left; reflexivity|exact Hq].
          -- apply (IH q' (result ++ [c]) (cand_text c :: seen) R HI'); [lia|exact Hrun].
      + apply (IH (fold_left (heap_push c_prio) (expand ctx f g c) q') result seen R); [|exact Hlen|exact Hrun].
        eapply step_expand; [exact HI|exact Hpop|]. intros Heq. rewrite Heq in Hbos. discriminate.
    - inversion Hrun; subst R. apply heap_pop_none in Hpop. subst queue.
      apply (post_of_inv0 d [] _ _ HI); [lia|left; reflexivity].
  Qed.

  (** the state after the first pop (the initial EOS element, whose priority 0 is not a bound) *)
  Definition init_cand : cand := {| c_chain := [PEos]; c_score := 0; c_prio := 0 |}.

  Lemma n_best_unroll fuel : n_best (S fuel) ctx f g n
    = nbest_loop fuel ctx f g n (fold_left (heap_push c_prio) (expand ctx f g init_cand) []) [] [].
  Proof. reflexivity. Qed.

  Lemma init_inv : Inv0 (fold_left (heap_push c_prio) (expand ctx f g init_cand) []) [] [].
  Proof.
    assert (Hb : qbase init_cand) by (split; reflexivity).
    destruct (fold_push_spec c_prio (expand ctx f g init_cand) [] (heap_ordered_nil c_prio)) as [Ho Hperm].
    rewrite app_nil_r in Hperm.
    constructor.
    - exact Ho.
    - intros q Hq. apply (Permutation_in _ (Permutation_sym Hperm)) in Hq.
      apply in_expand in Hq as (prev & Hprev & H0 & ->). apply child_qok; assumption.
    - intros r [].
    - intros s. reflexivity.
    - constructor.
    - exact I.
    - intros r q [].
    - intros p Hp Hconn. right.
      assert (Hext : extends p init_cand).
      { destruct Hp as [_ Hl]. destruct (chain_linked_last _ _ Hl) as [pre ->]. exists pre. reflexivity. }
      destruct (child_cover init_cand p Hb ltac:(discriminate) Hp Hconn Hext) as (ch & Hch & Hext').
      exists ch. split; [apply (Permutation_in _ Hperm); exact Hch|exact Hext'].
    - intros r p [].
  Qed.

  Theorem n_best_post d fuel R : (1 <= n)%nat -> n_best fuel ctx f g n = Some R -> Post d R.
  Proof.
    intros Hn Hrun. destruct fuel as [|fuel]; [discriminate|].
    rewrite n_best_unroll in Hrun. apply (loop_post d fuel _ [] [] R init_inv); [cbn [length]; lia|exact Hrun].
  Qed.
End Search.

(** * Termination: the search pops at most as many chains as there are partial chains *)
Section Fuel.
  Variable ctx : context.
  Variable f : freq.
  Variable g : graph.
  Variable n : nat.
  Hypothesis Hwf : graph_wf g.

  (** size of the tree of backward chains hanging below a path node, explored to depth [k] *)
  Fixpoint tsize (k : nat) (p : pnode) : nat :=
    match k with
    | O => 1
    | S k' => S (list_sum (map (tsize k') (previous_nodes g p)))
    end.

  Lemma list_sum_map_le {A} (f1 f2 : A -> nat) l :
    (forall x, In x l -> (f1 x <= f2 x)%nat) -> (list_sum (map f1 l) <= list_sum (map f2 l))%nat.
  Proof.
    induction l as [|x l IH]; intros H; [apply Nat.le_refl|].
    change (f1 x + list_sum (map f1 l) <= f2 x + list_sum (map f2 l))%nat.
    pose proof (H x (or_introl eq_refl)). assert (list_sum (map f1 l) <= list_sum (map f2 l))%nat by (apply IH; intros y Hy; apply H; right; exact Hy).
    lia.
  Qed.

  Lemma tsize_mono : forall k k' p, (k <= k')%nat -> (tsize k p <= tsize k' p)%nat.
  Proof.
    induction k as [|k IH]; intros k' p Hle.
    - destruct k'; cbn [tsize]; lia.
    - destruct k' as [|k']; [lia|]. cbn [tsize]. apply le_n_S.
      apply list_sum_map_le. intros x _. apply IH. lia.
  Qed.

  Definition weight (c : cand) : nat := tsize (rank g (cand_head c)) (cand_head c).
  Definition qweight (q : list cand) : nat := list_sum (map weight q).

  Lemma qweight_app a b : qweight (a ++ b) = (qweight a + qweight b)%nat.
  Proof. unfold qweight. rewrite map_app, list_sum_app. reflexivity. Qed.

  Lemma qweight_perm a b : Permutation a b -> qweight a = qweight b.
  Proof. intros H. unfold qweight. apply list_sum_perm. apply Permutation_map. exact H. Qed.

  Lemma weight_pos c : (1 <= weight c)%nat.
  Proof. unfold weight. destruct (rank g (cand_head c)); cbn [tsize]; lia. Qed.

  Definition pushed (c : cand) (prev : pnode) : list cand :=
    if c_prio (child ctx f c prev) <? 0 then [] else [child ctx f c prev].

  Lemma expand_eq c : expand ctx f g c = flat_map (pushed c) (previous_nodes g (cand_head c)).
  Proof. reflexivity. Qed.

  Lemma expand_weight c : pn_in g (cand_head c) -> cand_head c <> PBos ->
    (qweight (expand ctx f g c) < weight c)%nat.
  Proof.
    intros Hin Hnb. rewrite expand_eq. unfold weight.
    destruct (rank g (cand_head c)) as [|r] eqn:Hr.
    { destruct (cand_head c); cbn [rank] in Hr; congruence. }
    cbn [tsize]. apply le_n_S.
    assert (H : forall ps, (forall x, In x ps -> In x (previous_nodes g (cand_head c))) ->
      (qweight (flat_map (pushed c) ps) <= list_sum (map (tsize r) ps))%nat).
    { induction ps as [|x ps IH]; intros Hsub; [apply Nat.le_refl|].
      cbn [flat_map map]. rewrite qweight_app.
      change (list_sum (tsize r x :: map (tsize r) ps)) with (tsize r x + list_sum (map (tsize r) ps))%nat.
      assert (Hx : In x (previous_nodes g (cand_head c))) by (apply Hsub; left; reflexivity).
      pose proof (previous_rank g _ x Hwf Hin Hx) as Hrank. rewrite Hr in Hrank.
      assert (H1 : (qweight (pushed c x) <= tsize r x)%nat).
      { unfold pushed. destruct (c_prio (child ctx f c x) <? 0).
        - cbn. pose proof (tsize_mono 0 r x). cbn [tsize] in H. lia.
        - unfold qweight, weight. cbn [map list_sum fold_right child c_chain cand_head hd].
          pose proof (tsize_mono (rank g x) r x). lia. }
      assert (H2 := IH (fun y Hy => Hsub y (or_intror Hy))). lia. }
    apply H. intros x Hx; exact Hx.
  Qed.

  Definition LInv (queue : list cand) : Prop :=
    heap_ordered c_prio queue /\ forall q, In q queue -> pn_in g (cand_head q).

  Lemma loop_fuel : forall fuel queue result seen, LInv queue -> (qweight queue < fuel)%nat ->
    nbest_loop fuel ctx f g n queue result seen <> None.
  Proof.
    induction fuel as [|fuel IH]; intros queue result seen [Ho Hin] Hw; [lia|].
    cbn [nbest_loop].
    destruct (heap_pop c_prio queue) as [[c q']|] eqn:Hpop; [|discriminate].
    destruct (heap_pop_spec c_prio queue c q' Ho Hpop) as (Hperm & _ & Ho').
    rewrite (qweight_perm _ _ Hperm) in Hw. change (c :: q') with ([c] ++ q') in Hw.
    rewrite qweight_app in Hw. unfold qweight at 1 in Hw. cbn [map list_sum fold_right] in Hw.
    pose proof (weight_pos c) as Hc1.
    assert (Hin' : forall q, In q q' -> pn_in g (cand_head q)).
    { intros q Hq. apply Hin. apply (Permutation_in _ (Permutation_sym Hperm)). right; exact Hq. }
    assert (HL' : LInv q') by (split; assumption).
    destruct (is_bos (cand_head c)) eqn:Hbos.
    - destruct (mem_str (cand_text c) seen).
      + apply IH; [exact HL'|lia].
      + destruct (n <=? length (result ++ [c]))%nat; [discriminate|]. apply IH; [exact HL'|lia].
    - assert (Hnb : cand_head c <> PBos) by (intros Heq; rewrite Heq in Hbos; discriminate).
      assert (Hcin : pn_in g (cand_head c)).
      { apply Hin. apply (Permutation_in _ (Permutation_sym Hperm)). left; reflexivity. }
      destruct (fold_push_spec c_prio (expand ctx f g c) q' Ho') as [Ho2 Hperm2].
      apply IH.
      + split; [exact Ho2|]. intros q Hq. apply (Permutation_in _ (Permutation_sym Hperm2)) in Hq.
        apply in_app_or in Hq. destruct Hq as [Hq|Hq]; [|apply Hin'; exact Hq].
        apply in_expand in Hq as (prev & Hprev & _ & ->). cbn [child cand_head c_chain hd].
        apply (previous_in _ _ _ Hprev).
      + rewrite <- (qweight_perm _ _ Hperm2), qweight_app.
        pose proof (expand_weight c Hcin Hnb). lia.
  Qed.

  Theorem n_best_fuel : exists fuel0, forall fuel, (fuel0 <= fuel)%nat -> n_best fuel ctx f g n <> None.
  Proof.
    exists (S (qweight initial_queue)). intros fuel Hle. unfold n_best. apply loop_fuel; [|lia].
    unfold initial_queue.
    destruct (heap_push_spec c_prio [] {| c_chain := [PEos]; c_score := 0; c_prio := 0 |} (heap_ordered_nil c_prio)) as [Ho Hperm].
    split; [exact Ho|]. intros q Hq. apply (Permutation_in _ (Permutation_sym Hperm)) in Hq.
    destruct Hq as [<-|[]]. exact I.
  Qed.
End Fuel.

(** * Final statements (restated in Props/C02.v) *)

(** (Props/C02.v names the hypothesis on the learned counts [freq_ok]; it is not used by the proofs:
    a negative node score makes a path not connectable for the forward pass and for the search alike) *)
Definition nbest_dummy : cand := {| c_chain := []; c_score := 0; c_prio := 0 |}.

Theorem nbest_correct : forall ctx f g0 n fuel R,
  graph_wf g0 -> (forall c w, 0 <= freq_of f c w) -> (1 <= n)%nat ->
  let g := forward_dp ctx f g0 in
  n_best fuel ctx f g n = Some R ->
  (length R <= n)%nat
  /\ NoDup (map cand_text R)
  /\ sorted_desc (map c_prio R)
  /\ (forall r, In r R ->
        In (c_chain r) (all_paths g) /\ cand_text r = chain_text (c_chain r)
        /\ c_prio r = chain_score ctx f (c_chain r) /\ 0 <= c_prio r
        /\ (forall p, In p (all_paths g) -> chain_text p = cand_text r -> chain_score ctx f p <= c_prio r))
  /\ (forall p, In p (all_paths g) -> connectable ctx f p ->
        In (chain_text p) (map cand_text R)
        \/ (length R = n /\ chain_score ctx f p <= c_prio (last R nbest_dummy))).
Proof.
  intros ctx f g0 n fuel R Hwf0 _ Hn g Hrun.
  assert (Hwf : graph_wf g) by (apply forward_dp_wf; exact Hwf0).
  assert (Hsc : scored_graph ctx f g) by (apply forward_dp_scored; exact Hwf0).
  destruct (n_best_post ctx f g n Hsc nbest_dummy fuel R Hn Hrun) as (P1 & P2 & P3 & P4 & P5).
  split; [exact P1|]. split; [exact P2|]. split; [exact P3|]. split.
  - intros r Hr. destruct (P4 r Hr) as (Q1 & Q2 & Q3 & Q4).
    split; [apply all_paths_complete; assumption|]. split; [reflexivity|]. split; [exact Q2|]. split; [exact Q3|].
    intros p Hp Ht. apply Q4; [apply all_paths_complete; assumption|exact Ht].
  - intros p Hp Hc. apply P5; [apply all_paths_complete; assumption|exact Hc].
Qed.

Theorem nbest_fuel : forall ctx f g0 n, graph_wf g0 -> (forall c w, 0 <= freq_of f c w) ->
  exists fuel0, forall fuel, (fuel0 <= fuel)%nat -> n_best fuel ctx f (forward_dp ctx f g0) n <> None.
Proof.
  intros ctx f g0 n Hwf0 _. apply n_best_fuel. apply forward_dp_wf. exact Hwf0.
Qed.

(** * Boolean checkers for concrete examples *)

Fixpoint forallb_i {A} (p : nat -> A -> bool) (k : nat) (l : list A) : bool :=
  match l with [] => true | x :: l' => p k x && forallb_i p (S k) l' end.

Lemma forallb_i_spec {A} (p : nat -> A -> bool) l : forall k, forallb_i p k l = true ->
  forall j x, nth_error l j = Some x -> p (k + j)%nat x = true.
Proof.
  induction l as [|y l IH]; intros k H j x Hj; [destruct j; discriminate|].
  cbn [forallb_i] in H. apply andb_true_iff in H as [H1 H2].
  destruct j as [|j]; cbn [nth_error] in Hj.
  - inversion Hj; subst. rewrite Nat.add_0_r. exact H1.
  - rewrite <- Nat.add_succ_comm. apply (IH (S k) H2 j x Hj).
Qed.

Definition node_ok_b (i j : nat) (n : lnode) : bool :=
  (n_end n =? i)%nat && (n_slot n =? j)%nat && (1 <=? n_len n)%nat && (n_len n <=? S i)%nat.

Definition graph_wf_b (g : graph) : bool := forallb_i (fun i l => forallb_i (node_ok_b i) 0 l) 0 g.

Lemma graph_wf_b_sound g : graph_wf_b g = true -> graph_wf g.
Proof.
  intros H i l Hi j n Hj.
  pose proof (forallb_i_spec _ _ _ H i l Hi) as Hl. cbn [Nat.add] in Hl.
  pose proof (forallb_i_spec _ _ _ Hl j n Hj) as Hn. cbn [Nat.add] in Hn.
  unfold node_ok_b in Hn. unfold node_ok. lia.
Qed.

Definition freq_ok_b (f : freq) : bool := forallb (fun e => 0 <=? snd e) f.

Lemma freq_ok_b_sound f : freq_ok_b f = true -> forall c w, 0 <= freq_of f c w.
Proof.
  intros H c w. induction f as [|[[c' w'] k] f IH]; cbn [freq_of]; [lia|].
  cbn [freq_ok_b forallb snd] in H. apply andb_true_iff in H as [H1 H2].
  destruct (context_eqb c c' && str_eqb w w'); [lia|apply IH; exact H2].
Qed.
