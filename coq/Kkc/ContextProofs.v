(** How the conversion context influences scores and connectability (C16, C06). *)
From Chokan Require Import Base.Str Base.ListUtil Dic.Speech Gen.SpeechNames Kkc.Context Gen.ScoreTables
  Kkc.Lattice Kkc.Score Kkc.Heap Kkc.Search Kkc.Paths Kkc.ForwardProofs Kkc.LatticePaths.
From Coq Require Import Lia.
Local Open Scope Z_scope.

(** edges between words and into the verbatim tail do not depend on the context at all *)
Lemma edge_between_ctx c c' a b : edge_between c a b = edge_between c' a b.
Proof. reflexivity. Qed.
Lemma edge_virtual_ctx c c' a : edge_virtual c a = edge_virtual c' a.
Proof. reflexivity. Qed.

(** whether an edge is valid does not depend on the context (the head bonus is never negative) *)
Lemma edge_valid_ctx c c' p q : 0 <= edge_score c p q -> 0 <= edge_score c' p q.
Proof.
  destruct p as [| |pn], q as [| |qn]; cbn [edge_score]; try (intros _; unfold HEAD_DEFAULT; lia).
  - destruct (n_kind qn); intros _; [apply edge_head_nonneg|unfold HEAD_DEFAULT; lia].
  - destruct (n_kind pn); intros _; lia.
  - destruct (n_kind pn); intros _; lia.
  - destruct (n_kind pn); [|intros _; lia].
    destruct (n_kind qn); [rewrite (edge_between_ctx c c')|rewrite (edge_virtual_ctx c c')]; auto.
Qed.

(** all edges of a chain are valid *)
Fixpoint edges_valid (c : context) (ch : list pnode) : Prop :=
  match ch with
  | p :: ((q :: _) as rest) => 0 <= edge_score c p q /\ edges_valid c rest
  | _ => True
  end.

Lemma edges_valid_ctx c c' ch : edges_valid c ch -> edges_valid c' ch.
Proof.
  induction ch as [|p ch IH]; [auto|]. destruct ch as [|q r]; [auto|].
  cbn [edges_valid]. intros [H1 H2]. split; [eapply edge_valid_ctx; eassumption|apply IH; assumption].
Qed.

Lemma chain_score_sval ctx f ch : sval (chain_score ctx f ch).
Proof.
  destruct ch as [|p [|q r]]; [right; cbn; lia|right; cbn; lia|]. rewrite chain_score_cons. apply sadd_sval.
Qed.

(** under non-negative learned counts a chain is connectable iff all its edges are valid *)
Lemma connectable_edges ctx f ch : freq_ok f -> (0 <= chain_score ctx f ch <-> edges_valid ctx ch).
Proof.
  intro Hf. induction ch as [|p ch IH]; [cbn; split; [auto|lia]|].
  destruct ch as [|q r]; [cbn; split; [auto|lia]|].
  rewrite chain_score_cons. cbn [edges_valid]. split.
  - intro H. apply sadd_nonneg_inv in H as (H1 & H2 & _). apply sadd_nonneg_inv in H1 as (H1 & _ & _).
    split; [assumption|apply IH; assumption].
  - intros [H1 H2]. apply IH in H2. pose proof (node_score_nonneg ctx f q Hf).
    apply sadd_nonneg; [apply sadd_nonneg|]; assumption.
Qed.

(** connectability transfers between contexts and learned states along equal node kinds *)
Theorem connectable_transfer c c' f f' g g' ch ch' : freq_ok f -> freq_ok f' ->
  complete_chain g ch -> complete_chain g' ch' -> kinds ch = kinds ch' ->
  connectable c f ch -> connectable c' f' ch'.
Proof.
  intros Hf Hf' Hc Hc' Hk H. unfold connectable in *.
  rewrite <- (chain_score_kinds_complete c' f' g g' ch ch' Hc Hc' Hk).
  apply (connectable_edges c' f' ch Hf'). apply (edges_valid_ctx c c'). apply (connectable_edges c f ch Hf). assumption.
Qed.

(** * Proper-noun mode: same edges, one fixed bonus per proper noun *)

Definition is_proper_node (p : pnode) : bool :=
  match p with
  | PNode n => match n_kind n with KWord w => is_noun_proper (w_speech w) | KVirtual _ => false end
  | _ => false
  end.

(** proper nouns after the head of the chain *)
Fixpoint count_proper (ch : list pnode) : Z :=
  match ch with
  | [] => 0
  | p :: rest => (match rest with q :: _ => if is_proper_node q then 1 else 0 | [] => 0 end) + count_proper rest
  end.

Lemma edge_head_proper sp : edge_head CProper sp = edge_head CNormal sp.
Proof. destruct sp as [| | | | | | | | | | |[]]; reflexivity. Qed.

Lemma edge_score_proper p q : edge_score CProper p q = edge_score CNormal p q.
Proof. destruct p as [| |pn], q as [| |qn]; reflexivity. Qed.

(** learned counts seen by the two contexts (they are keyed by context) *)
Definition same_counts (f : freq) (c c' : context) : Prop := forall w, freq_of f c w = freq_of f c' w.

Lemma node_score_proper f q : same_counts f CProper CNormal ->
  node_score CProper f q = node_score CNormal f q + (if is_proper_node q then PROPER_BONUS else 0).
Proof.
  intro Hs. destruct q as [| |n]; cbn [node_score is_proper_node]; try lia.
  destruct (n_kind n) as [w|]; [|lia]. rewrite (Hs (w_word w)). cbn [is_proper andb].
  destruct (is_noun_proper (w_speech w)); lia.
Qed.

Lemma PROPER_BONUS_pos : 0 < PROPER_BONUS.
Proof. reflexivity. Qed.

(** every path keeps its connectability, and a connectable path gains exactly the bonus times its proper nouns *)
Theorem proper_bonus f ch : freq_ok f -> same_counts f CProper CNormal ->
  (0 <= chain_score CNormal f ch <-> 0 <= chain_score CProper f ch) /\
  (0 <= chain_score CNormal f ch -> chain_score CProper f ch = chain_score CNormal f ch + PROPER_BONUS * count_proper ch).
Proof.
  intros Hf Hs. split.
  - rewrite !(connectable_edges _ f ch Hf). split; apply edges_valid_ctx.
  - induction ch as [|p ch IH]; [cbn; lia|]. destruct ch as [|q r]; [cbn; lia|].
    rewrite !chain_score_cons. intro H.
    apply sadd_nonneg_inv in H as (H1 & H2 & E1). apply sadd_nonneg_inv in H1 as (H3 & H4 & E2).
    specialize (IH H2). rewrite E1, E2.
    rewrite edge_score_proper, (node_score_proper f q Hs), IH.
    pose proof PROPER_BONUS_pos as Hb.
    assert (Hc : 0 <= count_proper (q :: r)).
    { clear. induction (q :: r) as [|x l IHl]; [cbn; lia|]. cbn [count_proper]. destruct l as [|y l']; [lia|]. destruct (is_proper_node y); lia. }
    change (count_proper (p :: q :: r)) with ((if is_proper_node q then 1 else 0) + count_proper (q :: r)).
    destruct (is_proper_node q); sadd_pos; lia.
Qed.
