(** Proofs about the compound extractor (C20). *)
From Chokan Require Import Base.Str Base.ListUtil Dic.Speech Gen.SpeechNames Kkc.Context Gen.ScoreTables Kkc.Lattice Kkc.Score Kkc.Heap Kkc.Search Kkc.Affix.

Lemma prefix_facts sp : is_prefix sp = true -> is_ancillary sp = true /\ is_suffix sp = false.
Proof. destruct sp as [| | | | | | | | | | |[]]; cbn; intro H; try discriminate; auto. Qed.
Lemma suffix_facts sp : is_suffix sp = true -> is_ancillary sp = true /\ is_prefix sp = false.
Proof. destruct sp as [| | | | | | | | | | |[]]; cbn; intro H; try discriminate; auto. Qed.
Lemma independent_facts sp : is_ancillary sp = false -> is_prefix sp = false /\ is_suffix sp = false.
Proof. destruct sp as [| | | | | | | | | | |[]]; cbn; intro H; try discriminate; auto. Qed.

(** what may follow the converted run: nothing, or the single unconverted tail *)
Inductive tail_ok : list pnode -> Prop :=
| tail_eos : tail_ok [PEos]
| tail_virtual n s : n_kind n = KVirtual s -> tail_ok [PNode n; PEos].

Lemma tail_first_not_word t : tail_ok t -> match t with p :: _ => is_word_p p = false | [] => True end.
Proof. intros [|n s Hn]; cbn; [reflexivity|]. unfold n_is_word. rewrite Hn. reflexivity. Qed.

Section Shapes.
  Variables (np nw ns : lnode) (p w s : word) (t : list pnode).
  Hypothesis Hnp : n_kind np = KWord p.
  Hypothesis Hnw : n_kind nw = KWord w.
  Hypothesis Hns : n_kind ns = KWord s.
  Hypothesis Hp : is_prefix (w_speech p) = true.
  Hypothesis Hw : is_ancillary (w_speech w) = false.
  Hypothesis Hs : is_suffix (w_speech s) = true.
  Hypothesis Ht : tail_ok t.

  Lemma word_p_np : is_word_p (PNode np) = true. Proof. cbn. unfold n_is_word. rewrite Hnp. reflexivity. Qed.
  Lemma word_p_nw : is_word_p (PNode nw) = true. Proof. cbn. unfold n_is_word. rewrite Hnw. reflexivity. Qed.
  Lemma word_p_ns : is_word_p (PNode ns) = true. Proof. cbn. unfold n_is_word. rewrite Hns. reflexivity. Qed.

  Ltac tail_case := destruct Ht as [|nv sv Hv]; cbn [is_word_p n_is_word]; try rewrite Hv.

  Theorem learns_prefix_word :
    affix_of (PBos :: PNode np :: PNode nw :: t) = Some (w_word p ++ w_word w, w_reading p ++ w_reading w).
  Proof.
    destruct (prefix_facts _ Hp) as [Hpa Hps]. destruct (independent_facts _ Hw) as [Hwp Hws].
    unfold affix_of. rewrite word_p_np, word_p_nw. cbn [negb].
    assert (Hnn : match t with n2 :: _ => if is_word_p n2 then Some n2 else None | [] => None end = None).
    { pose proof (tail_first_not_word t Ht) as H. destruct t as [|x t']; [reflexivity|]. rewrite H. reflexivity. }
    cbn [tl]. change (match PNode nw :: t with _ :: n2 :: _ => if is_word_p n2 then Some n2 else None | _ => None end)
      with (match t with n2 :: _ => if is_word_p n2 then Some n2 else None | [] => None end).
    rewrite Hnn. unfold as_prefix, as_independent, as_suffix, word_if. rewrite Hnp, Hnw, Hp, Hw, Hpa, Hws. cbn [negb].
    reflexivity.
  Qed.

  Theorem learns_word_suffix :
    affix_of (PBos :: PNode nw :: PNode ns :: t) = Some (w_word w ++ w_word s, w_reading w ++ w_reading s).
  Proof.
    destruct (suffix_facts _ Hs) as [Hsa Hsp]. destruct (independent_facts _ Hw) as [Hwp Hws].
    unfold affix_of. rewrite word_p_nw, word_p_ns. cbn [negb].
    assert (Hnn : match t with n2 :: _ => if is_word_p n2 then Some n2 else None | [] => None end = None).
    { pose proof (tail_first_not_word t Ht) as H. destruct t as [|x t']; [reflexivity|]. rewrite H. reflexivity. }
    change (match PNode ns :: t with _ :: n2 :: _ => if is_word_p n2 then Some n2 else None | _ => None end)
      with (match t with n2 :: _ => if is_word_p n2 then Some n2 else None | [] => None end).
    rewrite Hnn. unfold as_prefix, as_independent, as_suffix, word_if. rewrite Hnw, Hns, Hw, Hwp, Hs, Hsa. cbn [negb].
    reflexivity.
  Qed.

  Theorem learns_prefix_word_suffix :
    affix_of (PBos :: PNode np :: PNode nw :: PNode ns :: t)
    = Some ((w_word p ++ w_word w) ++ w_word s, (w_reading p ++ w_reading w) ++ w_reading s).
  Proof.
    unfold affix_of. rewrite word_p_np, word_p_nw. cbn [negb].
    change (match PNode nw :: PNode ns :: t with _ :: n2 :: _ => if is_word_p n2 then Some n2 else None | _ => None end)
      with (if is_word_p (PNode ns) then Some (PNode ns) else None).
    rewrite word_p_ns. unfold as_prefix, as_independent, as_suffix, word_if. rewrite Hnp, Hnw, Hns, Hp, Hw, Hs. cbn [negb].
    reflexivity.
  Qed.
End Shapes.

(** a chain without any affix word teaches nothing *)
Theorem no_affix_no_learning ch :
  (forall x, In x ch -> as_prefix x = None /\ as_suffix x = None) -> affix_of ch = None.
Proof.
  intro H. unfold affix_of.
  set (c := match ch with PBos :: (_ :: _) as rest => rest | _ => ch end).
  assert (Hc : forall x, In x c -> as_prefix x = None /\ as_suffix x = None).
  { intros x Hx. apply H. subst c. destruct ch as [|[| |n] [|y r]]; cbn in *; auto. }
  clearbody c. destruct c as [|cur rest]; [reflexivity|].
  destruct (is_word_p cur); cbn [negb]; [|reflexivity].
  destruct (Hc cur (or_introl eq_refl)) as [Hcp _].
  destruct rest as [|nx rest]; [reflexivity|].
  destruct (is_word_p nx); [|destruct rest as [|n2 r]; [reflexivity|destruct (is_word_p n2); reflexivity]].
  destruct (Hc nx (or_intror (or_introl eq_refl))) as [_ Hns].
  destruct rest as [|n2 r].
  - rewrite Hcp, Hns. destruct (as_independent nx), (as_independent cur); reflexivity.
  - destruct (is_word_p n2).
    + rewrite Hcp. reflexivity.
    + rewrite Hcp, Hns. destruct (as_independent nx), (as_independent cur); reflexivity.
Qed.

(** before the repair: a chain headed by BOS never taught anything (kept as a regression statement about the OLD extractor) *)
Definition affix_of_old (chain : list pnode) : option (str * str) :=
  match chain with
  | cur :: _ => if negb (is_word_p cur) then None else affix_of chain
  | [] => None
  end.
Theorem old_extractor_blind rest : affix_of_old (PBos :: rest) = None.
Proof. reflexivity. Qed.
