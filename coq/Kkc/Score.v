(** Model of libs/kkc/src/score.rs (arithmetic of [Score]) and frequency lookup.
    Scores are in [Z]; a negative score means "not connectable" exactly as in the code.
    i32 overflow is NOT modelled: theorems about scores assume inputs and learned counts
    small enough that no path score reaches 2^31 (DESIGN.md F13). *)
From Chokan Require Import Base.Str Base.ListUtil Dic.Speech Gen.SpeechNames Kkc.Context Gen.ScoreTables Kkc.Lattice.
Local Open Scope Z_scope.

(** learned counts: (context, written form) -> count *)
Definition freq := list (context * str * Z).

Fixpoint freq_of (f : freq) (c : context) (w : str) : Z :=
  match f with
  | [] => 0
  | (c', w', n) :: f' => if context_eqb c c' && str_eqb w w' then n else freq_of f' c w
  end.

(** Score + Score *)
Definition sadd (a b : Z) : Z := if (a <? 0) || (b <? 0) then NON_CONNECT else a + b.
(** Score > Score (PartialOrd) *)
Definition sgt (a b : Z) : bool :=
  if (a <? 0) && (b <? 0) then false else if a <? 0 then false else if b <? 0 then true else b <? a.

Definition pscore (p : pnode) : Z := match p with PNode n => n_score n | _ => 0 end.

(** get_node_score *)
Definition node_score (ctx : context) (f : freq) (p : pnode) : Z :=
  match p with
  | PNode n =>
    match n_kind n with
    | KWord w =>
      let proper := if is_proper ctx && is_noun_proper (w_speech w) then PROPER_BONUS else 0 in
      freq_of f ctx (w_word w) + Z.pow (Z.of_nat (length (w_reading w) - 1)) LENGTH_EXPONENT + proper
    | KVirtual _ => 0
    end
  | _ => 0
  end.

(** get_edge_score *)
Definition edge_score (ctx : context) (prev cur : pnode) : Z :=
  match prev with
  | PBos =>
    match cur with
    | PNode n => match n_kind n with KWord w => edge_head ctx (w_speech w) | KVirtual _ => HEAD_DEFAULT end
    | _ => HEAD_DEFAULT
    end
  | PNode pn =>
    match n_kind pn, cur with
    | KWord pw, PNode cn =>
      match n_kind cn with
      | KWord cw => edge_between ctx (w_speech pw) (w_speech cw)
      | KVirtual _ => edge_virtual ctx (w_speech pw)
      end
    | _, _ => 0
    end
  | PEos => 0
  end.

(** calculate_best_score *)
Definition best_score (ctx : context) (f : freq) (cur : pnode) (prevs : list pnode) : Z :=
  fold_left (fun best p =>
    let s := sadd (sadd (pscore p) (node_score ctx f cur)) (edge_score ctx p cur) in
    if sgt s best then s else best) prevs NON_CONNECT.

(** forward_dp: positions in increasing order, nodes of a position in slot order *)
Definition forward_dp (ctx : context) (f : freq) (g : graph) : graph :=
  fold_left (fun g i =>
    fold_left (fun g n =>
      let s := best_score ctx f (PNode n) (previous_nodes g (PNode n)) in
      upd_nth g (n_end n) (fun l => upd_nth l (n_slot n)
        (fun m => {| n_end := n_end m; n_slot := n_slot m; n_kind := n_kind m; n_score := s |})))
      (nth i g []) g)
    (seq 0 (length g)) g.
