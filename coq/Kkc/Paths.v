(** Shared vocabulary for the theorems about the lattice and the search (C01 C02 C03 C16):
    well-formed graphs, chains, complete paths, path scores, the exhaustive path enumeration. *)
From Chokan Require Import Base.Str Base.ListUtil Dic.Speech Gen.SpeechNames Kkc.Context Gen.ScoreTables Kkc.Lattice Kkc.Score Kkc.Heap Kkc.Search.
Local Open Scope Z_scope.

(** * Structural well-formedness of a graph (independent of scores) *)

(** the node stored at index [i], slot [j] carries pointer (i, j), is at least one character long
    and does not start before the input *)
Definition node_ok (i j : nat) (n : lnode) : Prop :=
  n_end n = i /\ n_slot n = j /\ (1 <= n_len n <= S i)%nat.

Definition graph_wf (g : graph) : Prop :=
  forall i l, nth_error g i = Some l -> forall j n, nth_error l j = Some n -> node_ok i j n.

(** [g'] has the same nodes as [g] up to the stored scores *)
Definition same_node (a b : lnode) : Prop := n_end a = n_end b /\ n_slot a = n_slot b /\ n_kind a = n_kind b.
Definition same_shape (g g' : graph) : Prop := Forall2 (Forall2 same_node) g g'.

(** * Chains and complete paths *)

(** [ch = p0 :: p1 :: .. :: [PEos]] with every p_i a predecessor of p_(i+1) *)
Fixpoint chain_linked (g : graph) (ch : list pnode) : Prop :=
  match ch with
  | [] => False
  | [p] => p = PEos
  | p :: ((q :: _) as rest) => In p (previous_nodes g q) /\ chain_linked g rest
  end.

Definition complete_chain (g : graph) (ch : list pnode) : Prop := hd PEos ch = PBos /\ chain_linked g ch.

(** the score the engine gives a chain: node scores of every node after the head plus the edge scores,
    with the engine's own "not connectable" propagation; for a complete chain this is the path score *)
Fixpoint chain_score (ctx : context) (f : freq) (ch : list pnode) : Z :=
  match ch with
  | [] => 0
  | [_] => 0
  | p :: ((q :: _) as rest) => sadd (sadd (edge_score ctx p q) (node_score ctx f q)) (chain_score ctx f rest)
  end.

Definition connectable (ctx : context) (f : freq) (ch : list pnode) : Prop := 0 <= chain_score ctx f ch.

Definition chain_text (ch : list pnode) : str := flat_map pnode_text ch.

(** every complete chain of the graph, by exhaustive backward enumeration from EOS *)
Fixpoint extend_chain (fuel : nat) (g : graph) (ch : list pnode) : list (list pnode) :=
  match fuel with
  | O => []
  | S fuel' =>
    match ch with
    | [] => []
    | p :: _ => if is_bos p then [ch] else flat_map (fun q => extend_chain fuel' g (q :: ch)) (previous_nodes g p)
    end
  end.

Definition all_paths (g : graph) : list (list pnode) := extend_chain (length g + 2) g [PEos].

(** non-increasing *)
Fixpoint sorted_desc (l : list Z) : Prop :=
  match l with
  | [] => True
  | x :: l' => (match l' with [] => True | y :: _ => y <= x end) /\ sorted_desc l'
  end.

(** * The tiling predicate of C01, as a boolean *)

Fixpoint strip_ends (ch : list pnode) : option (list lnode) :=
  (* PBos :: parts ++ [PEos]  ->  parts *)
  match ch with
  | PBos :: rest =>
    (fix go (l : list pnode) : option (list lnode) :=
       match l with
       | [PEos] => Some []
       | PNode n :: l' => option_map (cons n) (go l')
       | _ => None
       end) rest
  | _ => None
  end.

(** words first, then nothing or exactly one virtual node *)
Fixpoint words_then_tail (parts : list lnode) : bool :=
  match parts with
  | [] => true
  | n :: rest =>
    match n_kind n with
    | KWord _ => words_then_tail rest
    | KVirtual _ => match rest with [] => true | _ => false end
    end
  end.

Definition c01_ok (input : str) (ch : list pnode) (text : str) : bool :=
  match strip_ends ch with
  | Some parts =>
    str_eqb (flat_map n_reading parts) input
    && str_eqb (flat_map n_surface parts) text
    && words_then_tail parts
    && negb (match parts with [] => true | _ => false end)
  | None => false
  end.

(** * forward_dp only changes scores *)

Definition set_score (s : Z) (m : lnode) : lnode :=
  {| n_end := n_end m; n_slot := n_slot m; n_kind := n_kind m; n_score := s |}.

Lemma same_node_refl n : same_node n n.
Proof. repeat split. Qed.

Lemma same_node_trans a b c : same_node a b -> same_node b c -> same_node a c.
Proof. intros (H1 & H2 & H3) (H4 & H5 & H6). repeat split; congruence. Qed.

Lemma Forall2_refl {A} (R : A -> A -> Prop) (l : list A) : (forall x, R x x) -> Forall2 R l l.
Proof. intro H; induction l; constructor; auto. Qed.

Lemma Forall2_trans {A} (R : A -> A -> Prop) (a b c : list A) :
  (forall x y z, R x y -> R y z -> R x z) -> Forall2 R a b -> Forall2 R b c -> Forall2 R a c.
Proof.
  intros HR Hab; revert c; induction Hab as [|x y a b Hxy Hab IH]; intros c Hbc; inversion Hbc; subst; constructor; eauto.
Qed.

Lemma same_shape_refl g : same_shape g g.
Proof. apply Forall2_refl. intro l. apply Forall2_refl. apply same_node_refl. Qed.

Lemma same_shape_trans a b c : same_shape a b -> same_shape b c -> same_shape a c.
Proof.
  apply Forall2_trans. intros x y z. apply Forall2_trans. apply same_node_trans.
Qed.

Lemma upd_nth_Forall2 {A} (R : A -> A -> Prop) (l : list A) i f :
  (forall x, R x x) -> (forall x, R x (f x)) -> Forall2 R l (upd_nth l i f).
Proof.
  intros Hr Hf. revert i; induction l as [|x l IH]; intros [|i]; cbn; constructor; auto.
  apply Forall2_refl; assumption.
Qed.

Lemma set_score_shape g i j s :
  same_shape g (upd_nth g i (fun l => upd_nth l j (set_score s))).
Proof.
  apply upd_nth_Forall2.
  - intro l. apply Forall2_refl. apply same_node_refl.
  - intro l. apply upd_nth_Forall2; [apply same_node_refl|]. intro n. repeat split.
Qed.

Lemma forward_dp_same_shape ctx f g : same_shape g (forward_dp ctx f g).
Proof.
  unfold forward_dp.
  assert (H : forall (is : list nat) g0, same_shape g g0 ->
    same_shape g (fold_left (fun g i =>
      fold_left (fun g n =>
        let s := best_score ctx f (PNode n) (previous_nodes g (PNode n)) in
        upd_nth g (n_end n) (fun l => upd_nth l (n_slot n)
          (fun m => {| n_end := n_end m; n_slot := n_slot m; n_kind := n_kind m; n_score := s |})))
        (nth i g []) g) is g0)).
  { induction is as [|i is IH]; intros g0 H0; cbn [fold_left]; [assumption|].
    apply IH.
    assert (H1 : forall (ns : list lnode) g1, same_shape g g1 ->
      same_shape g (fold_left (fun g n =>
        let s := best_score ctx f (PNode n) (previous_nodes g (PNode n)) in
        upd_nth g (n_end n) (fun l => upd_nth l (n_slot n)
          (fun m => {| n_end := n_end m; n_slot := n_slot m; n_kind := n_kind m; n_score := s |}))) ns g1)).
    { induction ns as [|n ns IHn]; intros g1 H1; cbn [fold_left]; [assumption|].
      apply IHn. eapply same_shape_trans; [exact H1|]. apply (set_score_shape g1). }
    apply H1. assumption. }
  apply H. apply same_shape_refl.
Qed.
