(** Model of libs/kkc/src/lib.rs: backward A* n-best search over the lattice, candidates. *)
From Chokan Require Import Base.Str Base.ListUtil Dic.Speech Gen.SpeechNames Kkc.Context Gen.ScoreTables Kkc.Lattice Kkc.Score Kkc.Heap.
Local Open Scope Z_scope.

(** a (partial) candidate: the chain from its current head node down to EOS *)
Record cand := { c_chain : list pnode; c_score : Z; c_prio : Z }.

Definition pnode_text (p : pnode) : str := match p with PNode n => n_surface n | _ => [] end.
Definition cand_text (c : cand) : str := flat_map pnode_text (c_chain c).
Definition cand_head (c : cand) : pnode := hd PEos (c_chain c).

Definition is_bos (p : pnode) : bool := match p with PBos => true | _ => false end.

Definition mem_str (s : str) (l : list str) : bool := existsb (str_eqb s) l.

(** the children of a popped candidate, in the order they are pushed *)
Definition expand (ctx : context) (f : freq) (g : graph) (c : cand) : list cand :=
  let cur := cand_head c in
  flat_map (fun prev =>
    let next_score := sadd (sadd (edge_score ctx prev cur) (node_score ctx f cur)) (c_score c) in
    let p := sadd next_score (pscore prev) in
    if p <? 0 then [] else [{| c_chain := prev :: c_chain c; c_score := next_score; c_prio := p |}])
    (previous_nodes g cur).

(** get_n_best_candidates; the fuel bounds the number of pops ([None] = out of fuel) *)
Fixpoint nbest_loop (fuel : nat) (ctx : context) (f : freq) (g : graph) (n : nat)
         (queue : list cand) (result : list cand) (seen : list str) : option (list cand) :=
  match fuel with
  | O => None
  | S fuel' =>
    match heap_pop c_prio queue with
    | None => Some result
    | Some (c, q) =>
      if is_bos (cand_head c) then
        if mem_str (cand_text c) seen then nbest_loop fuel' ctx f g n q result seen
        else
          let result' := result ++ [c] in
          if (n <=? length result')%nat then Some result'
          else nbest_loop fuel' ctx f g n q result' (cand_text c :: seen)
      else
        nbest_loop fuel' ctx f g n (fold_left (heap_push c_prio) (expand ctx f g c) q) result seen
    end
  end.

Definition initial_queue : list cand := heap_push c_prio [] {| c_chain := [PEos]; c_score := 0; c_prio := 0 |}.

Definition n_best (fuel : nat) (ctx : context) (f : freq) (g : graph) (n : nat) : option (list cand) :=
  nbest_loop fuel ctx f g n initial_queue [] [].

(** kkc::get_candidates *)
Definition get_candidates (fuel : nat) (input : str) (d : dict) (ctx : context) (f : freq) (n : nat) : outcome (option (list cand)) :=
  obind (from_input input d ctx) (fun g => Ok (n_best fuel ctx f (forward_dp ctx f g) n)).

(** Candidate::to_string_only_independent *)
Fixpoint chain_independent (ch : list pnode) : option str :=
  match ch with
  | [] => None
  | p :: ch' =>
    match p with
    | PNode n =>
      match n_kind n with
      | KWord w => if negb (is_ancillary (w_speech w)) then Some (w_word w) else chain_independent ch'
      | KVirtual _ => chain_independent ch'
      end
    | _ => chain_independent ch'
    end
  end.
