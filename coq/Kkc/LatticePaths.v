(** Chains of a finished lattice: tiling (C01), dictionary words only (C03), head part (C16),
    existence of the prefix-word paths (C03), scores and text depend only on kinds.  No axioms. *)
From Coq Require Import List Arith Lia ZArith Bool ZifyBool.
From Chokan Require Import Base.Str Base.ListUtil Dic.Speech Gen.SpeechNames Kkc.Context Gen.ScoreTables
  Kkc.Lattice Kkc.Score Kkc.Heap Kkc.Search Kkc.Paths Kkc.LatticeWf.
Import ListNotations.

(** * Predecessors *)

Lemma wf_In g j n : graph_wf g -> In n (nth j g []) -> n_end n = j /\ 1 <= n_len n <= S j.
Proof.
  intros Hw Hin. destruct (In_nth_nil _ _ _ Hin) as [He _].
  apply In_nth_error in Hin as [s Hs]. destruct (Hw _ _ He _ _ Hs) as (H1 & _ & H3). auto.
Qed.

Lemma chain_linked_cons g p q r : chain_linked g (p :: q :: r) = (In p (previous_nodes g q) /\ chain_linked g (q :: r)).
Proof. reflexivity. Qed.

Lemma prev_not_eos g q : ~ In PEos (previous_nodes g q).
Proof.
  destruct q as [| |m]; cbn [previous_nodes].
  - intros [].
  - destruct (length g); [intros [H|[]]; discriminate|]. rewrite in_map_iff. intros (x & Hx & _). discriminate.
  - destruct (n_end m <? n_len m); [intros [H|[]]; discriminate|].
    destruct (nth_error g (n_end m - n_len m)); [|intros []]. rewrite in_map_iff. intros (x & Hx & _). discriminate.
Qed.

Lemma prev_eos_in g n : In (PNode n) (previous_nodes g PEos) -> exists k, length g = S k /\ In n (nth k g []).
Proof.
  cbn [previous_nodes]. destruct (length g) as [|k]; [intros [H|[]]; discriminate|].
  rewrite in_map_iff. intros (x & Hx & Hin). inversion Hx; subst x. eauto.
Qed.

Lemma prev_bos_eos g : In PBos (previous_nodes g PEos) -> length g = 0.
Proof.
  cbn [previous_nodes]. destruct (length g) as [|k]; [reflexivity|].
  rewrite in_map_iff. intros (x & Hx & _). discriminate.
Qed.

Lemma prev_node_in g n m : In (PNode n) (previous_nodes g (PNode m)) ->
  n_len m <= n_end m /\ In n (nth (n_end m - n_len m) g []).
Proof.
  cbn [previous_nodes]. destruct (Nat.ltb_spec (n_end m) (n_len m)) as [Hlt|Hge]; [intros [H|[]]; discriminate|].
  destruct (nth_error g (n_end m - n_len m)) as [l|] eqn:E; [|intros []].
  rewrite in_map_iff. intros (x & Hx & Hin). inversion Hx; subst x. rewrite (nth_error_nth_nil _ _ _ E). auto.
Qed.

Lemma prev_bos_node g m : In PBos (previous_nodes g (PNode m)) -> n_end m < n_len m.
Proof.
  cbn [previous_nodes]. destruct (Nat.ltb_spec (n_end m) (n_len m)) as [Hlt|Hge]; [auto|].
  destruct (nth_error g (n_end m - n_len m)) as [l|]; [|intros []].
  rewrite in_map_iff. intros (x & Hx & _). discriminate.
Qed.

Lemma chain_head_in g n rest : chain_linked g (PNode n :: rest) -> exists j, In n (nth j g []).
Proof.
  destruct rest as [|q r]; [cbn; discriminate|]. rewrite chain_linked_cons. intros [Hin _].
  destruct q as [| |m].
  - destruct Hin.
  - apply prev_eos_in in Hin as (k & _ & Hk). eauto.
  - apply prev_node_in in Hin as [_ Hk]. eauto.
Qed.

Lemma chain_In_node g ch n : chain_linked g ch -> In (PNode n) ch -> exists j, In n (nth j g []).
Proof.
  induction ch as [|p ch IH]; intros Hc Hin; [destruct Hin|].
  destruct Hin as [->|Hin]; [apply (chain_head_in _ _ _ Hc)|].
  destruct ch as [|q r]; [destruct Hin|]. rewrite chain_linked_cons in Hc. apply IH; tauto.
Qed.

(** the form of a chain: nodes, then EOS; BOS can only come first *)
Lemma chain_shape g ch : chain_linked g ch ->
  exists ns, ch = map PNode ns ++ [PEos] \/ ch = PBos :: map PNode ns ++ [PEos].
Proof.
  induction ch as [|p ch IH]; [intros []|]. destruct ch as [|q r].
  - cbn. intros ->. exists []. left; reflexivity.
  - rewrite chain_linked_cons. intros [Hin Hc]. destruct (IH Hc) as (ns & [Hq|Hq]).
    + destruct p as [| |n].
      * exists ns. right. rewrite Hq. reflexivity.
      * elim (prev_not_eos _ _ Hin).
      * exists (n :: ns). left. rewrite Hq. reflexivity.
    + inversion Hq; subst q. destruct Hin.
Qed.

Lemma complete_chain_shape g ch : complete_chain g ch -> exists ns, ch = PBos :: map PNode ns ++ [PEos].
Proof.
  intros [Hhd Hc]. destruct (chain_shape _ _ Hc) as (ns & [H|H]); [|eauto].
  subst ch. destruct ns; discriminate Hhd.
Qed.

(** * What [lat_ok] says about a node *)

Lemma lat_node input d ctx g j n : lat_ok input d ctx g -> In n (nth j g []) ->
  n_end n = j /\ j < length input /\ n_start n <= j /\ n_reading n = slice input (n_start n) j /\
  (forall s, n_kind n = KVirtual s -> S j = length input) /\
  (forall w, n_kind n = KWord w ->
     (In w (d_std d) \/ (In w (d_anc d) /\ (n_start n = 0 -> head_mergeable ctx (w_speech w) = true)))).
Proof.
  intros [H1 H2 H3 H4] Hin. destruct (wf_In _ _ _ H2 Hin) as (He & Hlen).
  assert (Hh : has g j (n_kind n)) by (exists n; auto).
  unfold n_start, n_reading. rewrite n_len_klen in *. rewrite He.
  destruct (n_kind n) as [w|s] eqn:Ek.
  - destruct (H3 j w Hh) as (Hl & s & Hs & Hr & Hd). rewrite (word_klen _ _ _ _ Hl Hs Hr).
    replace (S j - (S j - s)) with s by lia. repeat split; auto; try lia; try discriminate.
    intros w' Hw'. inversion Hw'; subst w'. assumption.
  - destruct (H4 j s Hh) as (Hl & p & Hp & Hr & _). cbn [klen]. rewrite Hr, slice_length by lia.
    replace (S j - (S j - S p)) with (S p) by lia. repeat split; auto; try lia; discriminate.
Qed.

(** * T2: tiling *)

Fixpoint parts_of (l : list pnode) : option (list lnode) :=
  match l with
  | [PEos] => Some []
  | PNode n :: l' => option_map (cons n) (parts_of l')
  | _ => None
  end.

Lemma strip_ends_eq rest : strip_ends (PBos :: rest) = parts_of rest.
Proof. reflexivity. Qed.

Lemma parts_of_text l parts : parts_of l = Some parts -> flat_map pnode_text l = flat_map n_surface parts.
Proof.
  revert parts; induction l as [|p l IH]; intros parts H; [discriminate|].
  destruct p as [| |n].
  - discriminate.
  - destruct l; [|discriminate]. inversion H; subst. reflexivity.
  - cbn [parts_of] in H. destruct (parts_of l) as [ps|]; [|discriminate]. inversion H; subst.
    cbn [flat_map pnode_text]. f_equal. apply IH. reflexivity.
Qed.

Lemma chain_tiles_from input d ctx g : lat_ok input d ctx g ->
  forall rest n, chain_linked g (PNode n :: rest) ->
  exists parts, parts_of (PNode n :: rest) = Some (n :: parts) /\
                flat_map n_reading (n :: parts) = skipn (n_start n) input /\
                words_then_tail (n :: parts) = true.
Proof.
  intros Hok. induction rest as [|q rest IH]; intros n Hc; [discriminate Hc|].
  destruct (chain_head_in _ _ _ Hc) as [j Hj].
  destruct (lat_node _ _ _ _ _ _ Hok Hj) as (He & Hl & Hs & Hr & Hv & _).
  rewrite chain_linked_cons in Hc. destruct Hc as [Hin Hc]. destruct q as [| |m].
  - destruct Hin.
  - destruct rest as [|q2 r2]; [|rewrite chain_linked_cons in Hc; elim (prev_not_eos _ _ (proj1 Hc))].
    apply prev_eos_in in Hin as (k & Hk & Hnk).
    destruct (lat_node _ _ _ _ _ _ Hok Hnk) as (He' & _). assert (j = k) by congruence. subst k.
    exists []. split; [reflexivity|]. split.
    + cbn [flat_map]. rewrite app_nil_r, Hr. apply slice_to_end. rewrite <- (lo_len _ _ _ _ Hok). lia.
    + cbn [words_then_tail]. destruct (n_kind n); reflexivity.
  - destruct (IH m Hc) as (parts & Hp & Hrd & Hw).
    apply prev_node_in in Hin as [Hge Hnm].
    destruct (lat_node _ _ _ _ _ _ Hok Hnm) as (He' & _). assert (Hj' : j = n_end m - n_len m) by congruence.
    destruct (chain_head_in _ _ _ Hc) as [jm Hjm].
    destruct (lat_node _ _ _ _ _ _ Hok Hjm) as (Hem & Hlm & Hstm & _).
    assert (Hsm : n_start m = S j) by (unfold n_start; lia).
    exists (m :: parts). split; [|split].
    + change (parts_of (PNode n :: PNode m :: rest)) with (option_map (cons n) (parts_of (PNode m :: rest))).
      rewrite Hp. reflexivity.
    + change (flat_map n_reading (n :: m :: parts)) with (n_reading n ++ flat_map n_reading (m :: parts)).
      rewrite Hrd, Hr, Hsm. apply slice_app_skipn. lia.
    + change (words_then_tail (n :: m :: parts)) with
        (match n_kind n with KWord _ => words_then_tail (m :: parts) | KVirtual _ => false end).
      destruct (n_kind n) as [w|s] eqn:Ek; [assumption|]. specialize (Hv s eq_refl). lia.
Qed.

Theorem chain_tiles input d ctx g g' ch :
  input <> [] -> from_input input d ctx = Ok g -> same_shape g g' -> complete_chain g' ch ->
  c01_ok input ch (chain_text ch) = true.
Proof.
  intros Hne Hg Hs [Hhd Hc]. pose proof (lat_ok_from_input _ _ _ _ _ Hg Hs) as Hok.
  destruct ch as [|p rest]; [destruct Hc|]. cbn [hd] in Hhd. subst p.
  destruct rest as [|q rest]; [discriminate Hc|]. rewrite chain_linked_cons in Hc. destruct Hc as [Hin Hc].
  destruct q as [| |n].
  - destruct Hin.
  - apply prev_bos_eos in Hin. rewrite (lo_len _ _ _ _ Hok) in Hin. destruct input; [congruence|discriminate].
  - apply prev_bos_node in Hin. destruct (chain_tiles_from _ _ _ _ Hok _ _ Hc) as (parts & Hp & Hrd & Hw).
    unfold c01_ok. rewrite strip_ends_eq, Hp, Hw.
    assert (Hz : n_start n = 0) by (unfold n_start; lia). rewrite Hrd, Hz. cbn [skipn].
    rewrite str_eqb_refl. unfold chain_text.
    change (flat_map pnode_text (PBos :: PNode n :: rest)) with (flat_map pnode_text (PNode n :: rest)).
    rewrite (parts_of_text _ _ Hp), str_eqb_refl. reflexivity.
Qed.

(** * T3: only dictionary words *)

Theorem only_dictionary input d ctx g g' ch n w :
  from_input input d ctx = Ok g -> same_shape g g' -> complete_chain g' ch ->
  In (PNode n) ch -> n_kind n = KWord w ->
  (In w (d_std d) \/ In w (d_anc d)) /\ w_reading w = slice input (n_start n) (n_end n) /\ w_reading w <> [].
Proof.
  intros Hg Hs [_ Hc] Hin Hk. pose proof (lat_ok_from_input _ _ _ _ _ Hg Hs) as Hok.
  destruct (chain_In_node _ _ _ Hc Hin) as [j Hj].
  destruct (lat_node _ _ _ _ _ _ Hok Hj) as (He & Hl & Hst & Hr & _ & Hd).
  unfold n_reading in Hr. rewrite Hk in Hr. rewrite He. split; [|split].
  - destruct (Hd w Hk) as [H|[H _]]; auto.
  - assumption.
  - intro Hnil. apply (f_equal (@length _)) in Hr. rewrite slice_length, Hnil in Hr by assumption. cbn [length] in Hr. lia.
Qed.

(** * T8: the head part *)

Theorem head_part input d ctx g g' n rest w :
  from_input input d ctx = Ok g -> same_shape g g' -> complete_chain g' (PBos :: PNode n :: rest) -> n_kind n = KWord w ->
  In w (d_std d) \/ (In w (d_anc d) /\ head_mergeable ctx (w_speech w) = true).
Proof.
  intros Hg Hs [_ Hc] Hk. pose proof (lat_ok_from_input _ _ _ _ _ Hg Hs) as Hok.
  rewrite chain_linked_cons in Hc. destruct Hc as [Hin Hc]. apply prev_bos_node in Hin.
  destruct (chain_head_in _ _ _ Hc) as [j Hj].
  destruct (lat_node _ _ _ _ _ _ Hok Hj) as (_ & _ & _ & _ & _ & Hd).
  destruct (Hd w Hk) as [H|[H1 H2]]; [left; assumption|right]. split; [assumption|]. apply H2. unfold n_start. lia.
Qed.

Theorem head_mergeable_not_particle ctx sp : head_mergeable ctx sp = true ->
  (forall t, sp <> Particle t) /\ sp <> AuxiliaryVerb.
Proof.
  intro H. split; [intros t ->|intros ->]; [destruct t|]; destruct ctx; discriminate H.
Qed.

(** * T9: text and scores depend only on the kinds *)

Definition kinds (ch : list pnode) : list (option nkind) :=
  map (fun p => match p with PNode n => Some (n_kind n) | _ => None end) ch.

Definition ktext (o : option nkind) : str :=
  match o with Some (KWord w) => w_word w | Some (KVirtual s) => s | None => [] end.

Lemma chain_text_ktext ch : chain_text ch = flat_map ktext (kinds ch).
Proof.
  unfold chain_text, kinds. induction ch as [|p ch IH]; [reflexivity|]. cbn [flat_map map]. rewrite IH. f_equal.
  destruct p as [| |n]; reflexivity.
Qed.

Theorem chain_text_kinds ch ch' : kinds ch = kinds ch' -> chain_text ch = chain_text ch'.
Proof. intro H. rewrite !chain_text_ktext, H. reflexivity. Qed.

(** [kinds] does not tell BOS from EOS, and the engine scores the edge out of BOS differently; so
    equality of scores needs the two lists to agree on where BOS / EOS are *)
Definition same_pk (p q : pnode) : Prop :=
  match p, q with
  | PBos, PBos => True
  | PEos, PEos => True
  | PNode a, PNode b => n_kind a = n_kind b
  | _, _ => False
  end.

Lemma edge_score_same ctx p p' q q' : same_pk p p' -> same_pk q q' -> edge_score ctx p q = edge_score ctx p' q'.
Proof.
  destruct p as [| |a], p' as [| |a']; cbn [same_pk]; try contradiction; intros Hp;
  destruct q as [| |b], q' as [| |b']; cbn [same_pk]; try contradiction; intros Hq; cbn [edge_score];
  try rewrite Hp; try rewrite Hq; reflexivity.
Qed.

Lemma node_score_same ctx f q q' : same_pk q q' -> node_score ctx f q = node_score ctx f q'.
Proof.
  destruct q as [| |b], q' as [| |b']; cbn [same_pk]; try contradiction; intros Hq; cbn [node_score];
  try rewrite Hq; reflexivity.
Qed.

Lemma chain_score_same ctx f ch ch' : Forall2 same_pk ch ch' -> chain_score ctx f ch = chain_score ctx f ch'.
Proof.
  intro H. induction H as [|p p' l l' Hp H IH]; [reflexivity|].
  destruct H as [|q q' r r' Hq H]; [reflexivity|].
  change (chain_score ctx f (p :: q :: r)) with
    (sadd (sadd (edge_score ctx p q) (node_score ctx f q)) (chain_score ctx f (q :: r))).
  change (chain_score ctx f (p' :: q' :: r')) with
    (sadd (sadd (edge_score ctx p' q') (node_score ctx f q')) (chain_score ctx f (q' :: r'))).
  rewrite IH, (edge_score_same ctx _ _ _ _ Hp Hq), (node_score_same ctx f _ _ Hq). reflexivity.
Qed.

Lemma kinds_same_pk ns ns' : map (fun n => Some (n_kind n)) ns = map (fun n => Some (n_kind n)) ns' ->
  Forall2 same_pk (map PNode ns) (map PNode ns').
Proof.
  revert ns'; induction ns as [|a ns IH]; intros [|b ns'] H; try discriminate; cbn [map]; constructor;
    cbn [map] in H; injection H as H1 H2.
  - exact H1.
  - apply IH. exact H2.
Qed.

Lemma kinds_nodes ns : kinds (PBos :: map PNode ns ++ [PEos]) = None :: map (fun n => Some (n_kind n)) ns ++ [None].
Proof. unfold kinds. cbn [map]. rewrite map_app, map_map. reflexivity. Qed.

Theorem chain_score_kinds_complete ctx f g g' ch ch' :
  complete_chain g ch -> complete_chain g' ch' -> kinds ch = kinds ch' ->
  chain_score ctx f ch = chain_score ctx f ch'.
Proof.
  intros Hc Hc' Hk. destruct (complete_chain_shape _ _ Hc) as [ns ->]. destruct (complete_chain_shape _ _ Hc') as [ns' ->].
  rewrite !kinds_nodes in Hk. inversion Hk as [Hk']. apply app_inj_tail in Hk' as [Hk' _].
  apply chain_score_same. constructor; [exact I|]. apply Forall2_app; [apply kinds_same_pk; assumption|].
  constructor; [exact I|constructor].
Qed.

(** * Building chains: T4, T5 *)

Definition freq_ok (f : freq) : Prop := forall c w, (0 <= freq_of f c w)%Z.

Lemma link_bos g j n : graph_wf g -> In n (nth j g []) -> klen (n_kind n) = S j -> In PBos (previous_nodes g (PNode n)).
Proof.
  intros Hw Hin Hk. destruct (wf_In _ _ _ Hw Hin) as [He _]. cbn [previous_nodes]. rewrite n_len_klen, Hk, He.
  rewrite (proj2 (Nat.ltb_lt j (S j))) by lia. left; reflexivity.
Qed.

Lemma link_node g i j a b : graph_wf g -> In a (nth i g []) -> In b (nth j g []) -> S i + klen (n_kind b) = S j ->
  In (PNode a) (previous_nodes g (PNode b)).
Proof.
  intros Hw Ha Hb Hk. destruct (wf_In _ _ _ Hw Hb) as [He _]. cbn [previous_nodes]. rewrite n_len_klen, He.
  destruct (Nat.ltb_spec j (klen (n_kind b))) as [Hlt|Hge]; [lia|].
  replace (j - klen (n_kind b)) with i by lia. rewrite (proj1 (In_nth_nil _ _ _ Ha)). apply in_map. assumption.
Qed.

Lemma link_eos g j a : In a (nth j g []) -> length g = S j -> In (PNode a) (previous_nodes g PEos).
Proof. intros Ha Hl. cbn [previous_nodes]. rewrite Hl. apply in_map. assumption. Qed.

Local Open Scope Z_scope.

Lemma sadd_nonneg a b : 0 <= a -> 0 <= b -> 0 <= sadd a b.
Proof. intros Ha Hb. unfold sadd. destruct (Z.ltb_spec a 0); [lia|]. destruct (Z.ltb_spec b 0); [lia|]. cbn [orb]. lia. Qed.

Lemma edge_head_nonneg ctx sp : 0 <= edge_head ctx sp.
Proof. destruct sp as [[]|[] r| | | | | |[]| | | |[]]; destruct ctx; vm_compute; discriminate. Qed.

Lemma edge_virtual_nonneg ctx sp : is_ancillary sp = false -> 0 <= edge_virtual ctx sp.
Proof.
  intro H. destruct sp as [[]|[] r| | | | | |[]| | | |[]]; destruct ctx; try discriminate H; vm_compute; discriminate.
Qed.

Lemma head_mergeable_prefix ctx : head_mergeable ctx (Affix APrefix) = true.
Proof. destruct ctx; reflexivity. Qed.

Lemma node_score_nonneg ctx f p : freq_ok f -> 0 <= node_score ctx f p.
Proof.
  intro Hf. destruct p as [| |n]; cbn [node_score]; try lia. destruct (n_kind n) as [w|s]; [|lia].
  pose proof (Hf ctx (w_word w)) as H1.
  assert (H2 : 0 <= Z.of_nat (length (w_reading w) - 1) ^ LENGTH_EXPONENT) by (apply Z.pow_nonneg; lia).
  assert (H3 : 0 <= (if is_proper ctx && is_noun_proper (w_speech w) then PROPER_BONUS else 0)).
  { destruct (is_proper ctx && is_noun_proper (w_speech w)); [vm_compute; discriminate|lia]. }
  lia.
Qed.

Lemma edge_to_eos ctx n : edge_score ctx (PNode n) PEos = 0.
Proof. cbn [edge_score]. destruct (n_kind n); reflexivity. Qed.

Lemma edge_from_virtual ctx n s q : n_kind n = KVirtual s -> edge_score ctx (PNode n) q = 0.
Proof. intro H. cbn [edge_score]. rewrite H. reflexivity. Qed.

Lemma edge_word_virtual ctx n w m s : n_kind n = KWord w -> n_kind m = KVirtual s ->
  edge_score ctx (PNode n) (PNode m) = edge_virtual ctx (w_speech w).
Proof. intros H1 H2. cbn [edge_score]. rewrite H1, H2. reflexivity. Qed.

Lemma edge_word_word ctx n w m w' : n_kind n = KWord w -> n_kind m = KWord w' ->
  edge_score ctx (PNode n) (PNode m) = edge_between ctx (w_speech w) (w_speech w').
Proof. intros H1 H2. cbn [edge_score]. rewrite H1, H2. reflexivity. Qed.

Lemma edge_bos_word ctx n w : n_kind n = KWord w -> edge_score ctx PBos (PNode n) = edge_head ctx (w_speech w).
Proof. intros H1. cbn [edge_score]. rewrite H1. reflexivity. Qed.

Lemma chain_score_cons ctx f p q r :
  chain_score ctx f (p :: q :: r) = sadd (sadd (edge_score ctx p q) (node_score ctx f q)) (chain_score ctx f (q :: r)).
Proof. reflexivity. Qed.

Local Close Scope Z_scope.

(** from a word node ending at [j] to EOS: directly when the input ends there, else through the virtual node
    that covers the rest of the input *)
Lemma tail_chain input d ctx g g' j n w :
  from_input input d ctx = Ok g -> same_shape g g' ->
  In n (nth j g' []) -> n_kind n = KWord w ->
  exists tl, chain_linked g' (PNode n :: tl) /\ flat_map pnode_text tl = skipn (S j) input /\
    forall f, freq_ok f -> (skipn (S j) input <> [] -> (0 <= edge_virtual ctx (w_speech w))%Z) ->
              (0 <= chain_score ctx f (PNode n :: tl))%Z.
Proof.
  intros Hg Hs Hn Hk. pose proof (lat_ok_from_input _ _ _ _ _ Hg Hs) as Hok.
  destruct (from_input_has _ _ _ _ Hg) as (Hlen & _ & Hhas).
  destruct (lat_node _ _ _ _ _ _ Hok Hn) as (He & Hl & _).
  pose proof (lo_len _ _ _ _ Hok) as Hlen'. pose proof (lo_wf _ _ _ _ Hok) as Hwf.
  destruct (Nat.eq_dec (S j) (length input)) as [Hlast|Hnl].
  - exists [PEos]. split; [|split].
    + rewrite chain_linked_cons. split; [|reflexivity]. apply (link_eos _ j); [assumption|lia].
    + rewrite skipn_all2 by lia. reflexivity.
    + intros f Hf _. rewrite chain_score_cons. rewrite edge_to_eos.
      apply sadd_nonneg; [apply sadd_nonneg; [lia|apply node_score_nonneg; assumption]|cbn; lia].
  - destruct (length input) as [|last] eqn:El; [lia|].
    assert (Hg3 : has (g3_of input d ctx) j (KWord w)).
    { assert (H : has g j (KWord w)) by (apply (has_shape _ _ _ _ (same_shape_sym _ _ Hs)); exists n; auto).
      apply Hhas in H as [H|(_ & i & _ & _ & H)]; [assumption|discriminate]. }
    assert (Hv : has g' last (KVirtual (slice input (S j) last))).
    { apply (has_shape _ _ _ _ Hs). apply Hhas. right. split; [reflexivity|]. exists j. split; [lia|]. split; [eauto|reflexivity]. }
    destruct Hv as (v & Hv & Hkv). rewrite (slice_to_end _ _ _ El) in Hkv.
    exists [PNode v; PEos]. split; [|split].
    + rewrite !chain_linked_cons. split; [|split; [|reflexivity]].
      * apply (link_node _ j last); auto. rewrite Hkv. cbn [klen]. rewrite skipn_length. lia.
      * apply (link_eos _ last); [assumption|lia].
    + cbn [flat_map pnode_text]. unfold n_surface. rewrite Hkv. cbn [app]. apply app_nil_r.
    + intros f Hf Hev. rewrite !chain_score_cons.
      rewrite (edge_word_virtual _ _ _ _ _ Hk Hkv), edge_to_eos.
      assert (Hne : skipn (S j) input <> []).
      { intro H. apply (f_equal (@length _)) in H. rewrite skipn_length in H. cbn [length] in H. lia. }
      repeat apply sadd_nonneg; try (apply node_score_nonneg; assumption); try lia; [auto|cbn; lia].
Qed.

Lemma skipn_app_exact {A} (a b : list A) : skipn (length a) (a ++ b) = b.
Proof. rewrite skipn_app, skipn_all, Nat.sub_diag. reflexivity. Qed.

Theorem prefix_word_path input d ctx f g g' w rest :
  from_input input d ctx = Ok g -> same_shape g g' ->
  In w (d_std d) -> w_reading w <> [] -> input = w_reading w ++ rest ->
  exists ch, complete_chain g' ch /\ chain_text ch = w_word w ++ rest
             /\ (is_ancillary (w_speech w) = false -> freq_ok f -> connectable ctx f ch).
Proof.
  intros Hg Hs Hw Hne Hin. pose proof (lat_ok_from_input _ _ _ _ _ Hg Hs) as Hok.
  destruct (from_input_has _ _ _ _ Hg) as (Hlen & _ & Hhas).
  assert (Hr1 : 1 <= length (w_reading w)) by (destruct (w_reading w); cbn [length]; [congruence|lia]).
  assert (Hli : length input = length (w_reading w) + length rest) by (rewrite Hin at 1; apply app_length).
  set (j := length (w_reading w) - 1).
  assert (Hn : has g' j (KWord w)).
  { apply (has_shape _ _ _ _ Hs). apply Hhas. left. apply has_g3. left. apply has_g2. split; [lia|].
    exists w, 0. repeat split; auto; [lia| |left; reflexivity]. rewrite Hin. symmetry. apply slice_prefix. assumption. }
  destruct Hn as (n & Hn & Hk).
  destruct (tail_chain _ _ _ _ _ _ _ _ Hg Hs Hn Hk) as (tl & Hc & Ht & Hsc).
  assert (Hsk : skipn (S j) input = rest).
  { replace (S j) with (length (w_reading w)) by lia. rewrite Hin. apply skipn_app_exact. }
  exists (PBos :: PNode n :: tl). split; [|split].
  - split; [reflexivity|]. rewrite chain_linked_cons. split; [|assumption].
    apply (link_bos _ j); [apply (lo_wf _ _ _ _ Hok)|assumption|]. rewrite Hk. cbn [klen]. lia.
  - unfold chain_text. cbn [flat_map pnode_text app]. unfold n_surface. rewrite Hk. f_equal. rewrite Ht. assumption.
  - intros Hanc Hf. unfold connectable. rewrite chain_score_cons. rewrite (edge_bos_word _ _ _ Hk).
    apply sadd_nonneg; [apply sadd_nonneg; [apply edge_head_nonneg|apply node_score_nonneg; assumption]|].
    apply Hsc; [assumption|]. intros _. apply edge_virtual_nonneg. assumption.
Qed.

(** T5 with the hypothesis it needs: when something follows [w], the engine must let a virtual node follow [w] *)
Theorem after_prefix_path_partial input d ctx f g g' p w rest :
  from_input input d ctx = Ok g -> same_shape g g' ->
  In p (d_anc d) -> w_speech p = Affix APrefix -> w_reading p <> [] ->
  In w (d_std d) -> w_reading w <> [] ->
  (0 <= edge_between ctx (Affix APrefix) (w_speech w))%Z ->
  input = w_reading p ++ w_reading w ++ rest ->
  exists ch, complete_chain g' ch /\ chain_text ch = w_word p ++ w_word w ++ rest
             /\ (freq_ok f -> (rest <> [] -> (0 <= edge_virtual ctx (w_speech w))%Z) -> connectable ctx f ch).
Proof.
  intros Hg Hs Hp Hsp Hpne Hw Hne Hedge Hin. pose proof (lat_ok_from_input _ _ _ _ _ Hg Hs) as Hok.
  destruct (from_input_has _ _ _ _ Hg) as (Hlen & _ & Hhas).
  assert (Hp1 : 1 <= length (w_reading p)) by (destruct (w_reading p); cbn [length]; [congruence|lia]).
  assert (Hr1 : 1 <= length (w_reading w)) by (destruct (w_reading w); cbn [length]; [congruence|lia]).
  assert (Hli : length input = length (w_reading p) + (length (w_reading w) + length rest))
    by (rewrite Hin at 1; rewrite !app_length; reflexivity).
  set (e := length (w_reading p) - 1). set (j := length (w_reading p) + length (w_reading w) - 1).
  assert (Hpa : has (find_ancillary input d) e (KWord p)).
  { apply has_find_ancillary. split; [lia|]. exists 0, p. repeat split; auto; [lia|].
    rewrite Hin. symmetry. apply slice_prefix. assumption. }
  assert (Hpn : has g' e (KWord p)).
  { apply (has_shape _ _ _ _ Hs). apply Hhas. left. apply has_g3. right. split; [assumption|].
    left. cbn [klen]. split; [lia|]. exists p. split; [reflexivity|]. rewrite Hsp. apply head_mergeable_prefix. }
  assert (Hn : has g' j (KWord w)).
  { apply (has_shape _ _ _ _ Hs). apply Hhas. left. apply has_g3. left. apply has_g2. split; [lia|].
    exists w, (S e). repeat split; auto; [lia| |].
    - rewrite Hin. symmetry. replace (S e) with (length (w_reading p)) by lia. apply slice_mid. assumption.
    - right. exists e, p. repeat split; auto. lia. }
  destruct Hpn as (pn & Hpn & Hpk). destruct Hn as (n & Hn & Hk).
  destruct (tail_chain _ _ _ _ _ _ _ _ Hg Hs Hn Hk) as (tl & Hc & Ht & Hsc).
  assert (Hsk : skipn (S j) input = rest).
  { replace (S j) with (length (w_reading p ++ w_reading w)) by (rewrite app_length; lia).
    rewrite Hin, app_assoc. apply skipn_app_exact. }
  exists (PBos :: PNode pn :: PNode n :: tl). split; [|split].
  - split; [reflexivity|]. rewrite !chain_linked_cons. split; [|split; [|assumption]].
    + apply (link_bos _ e); [apply (lo_wf _ _ _ _ Hok)|assumption|]. rewrite Hpk. cbn [klen]. lia.
    + apply (link_node _ e j); [apply (lo_wf _ _ _ _ Hok)|assumption|assumption|]. rewrite Hk. cbn [klen]. lia.
  - unfold chain_text. cbn [flat_map pnode_text app]. unfold n_surface. rewrite Hpk, Hk. f_equal. f_equal. rewrite Ht. assumption.
  - intros Hf Hev. unfold connectable. rewrite !chain_score_cons.
    rewrite (edge_bos_word _ _ _ Hpk), (edge_word_word _ _ _ _ _ Hpk Hk), Hsp.
    apply sadd_nonneg; [apply sadd_nonneg; [apply edge_head_nonneg|apply node_score_nonneg; assumption]|].
    apply sadd_nonneg; [apply sadd_nonneg; [assumption|apply node_score_nonneg; assumption]|].
    apply Hsc; [assumption|]. rewrite Hsk. assumption.
Qed.

Corollary after_prefix_path_independent input d ctx f g g' p w rest :
  from_input input d ctx = Ok g -> same_shape g g' ->
  In p (d_anc d) -> w_speech p = Affix APrefix -> w_reading p <> [] ->
  In w (d_std d) -> w_reading w <> [] ->
  (0 <= edge_between ctx (Affix APrefix) (w_speech w))%Z ->
  input = w_reading p ++ w_reading w ++ rest ->
  exists ch, complete_chain g' ch /\ chain_text ch = w_word p ++ w_word w ++ rest
             /\ (freq_ok f -> is_ancillary (w_speech w) = false -> connectable ctx f ch).
Proof.
  intros Hg Hs Hp Hsp Hpne Hw Hne Hedge Hin.
  destruct (after_prefix_path_partial _ _ _ f _ _ _ _ _ Hg Hs Hp Hsp Hpne Hw Hne Hedge Hin) as (ch & H1 & H2 & H3).
  exists ch. repeat split; try assumption; try apply H1. intros Hf Hanc. apply H3; [assumption|].
  intros _. apply edge_virtual_nonneg. assumption.
Qed.

(** the first part of a chain is never a virtual node *)
Theorem head_is_word input d ctx g g' n rest :
  from_input input d ctx = Ok g -> same_shape g g' -> complete_chain g' (PBos :: PNode n :: rest) ->
  exists w, n_kind n = KWord w.
Proof.
  intros Hg Hs [_ Hc]. pose proof (lat_ok_from_input _ _ _ _ _ Hg Hs) as Hok.
  rewrite chain_linked_cons in Hc. destruct Hc as [Hin Hc]. apply prev_bos_node in Hin.
  destruct (chain_head_in _ _ _ Hc) as [j Hj]. destruct (wf_In _ _ _ (lo_wf _ _ _ _ Hok) Hj) as [He _].
  destruct (n_kind n) as [w|s] eqn:Ek; [eauto|].
  destruct (lo_virt _ _ _ _ Hok j s) as (Hl & p & Hp & Hr & _); [exists n; auto|].
  rewrite n_len_klen, Ek in Hin. cbn [klen] in Hin. rewrite Hr, slice_length in Hin by lia. lia.
Qed.
