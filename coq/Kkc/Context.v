(** Mirror of libs/kkc/src/context.rs *)
Inductive context := CNormal | CForeignWord | CNumeral | CProper.
Definition is_foreign_word (c : context) : bool := match c with CForeignWord => true | _ => false end.
Definition is_numeral (c : context) : bool := match c with CNumeral => true | _ => false end.
Definition is_proper (c : context) : bool := match c with CProper => true | _ => false end.
Definition context_eqb (a b : context) : bool :=
  match a, b with CNormal, CNormal | CForeignWord, CForeignWord | CNumeral, CNumeral | CProper, CProper => true | _, _ => false end.
