(** Replica of std::collections::BinaryHeap (max-heap on a Vec) for elements ordered by an
    integer priority:  push = sift_up;  pop = take the last element, put it at the root,
    sift_down_to_bottom, then sift_up.  Kept executable so that the model predicts the
    implementation's pop order including ties. *)
From Chokan Require Import Base.Str Base.ListUtil.
Local Open Scope Z_scope.

Section Heap.
  Context {A : Type}.
  Variable prio : A -> Z.

  Definition hle (a b : A) : bool := prio a <=? prio b.

  Definition swap (d : list A) (i j : nat) : list A :=
    match nth_error d i, nth_error d j with
    | Some x, Some y => upd_nth (upd_nth d i (fun _ => y)) j (fun _ => x)
    | _, _ => d
    end.

  (** sift_up(start, pos): returns the new data *)
  Fixpoint sift_up (fuel : nat) (d : list A) (start pos : nat) : list A :=
    match fuel with
    | O => d
    | S fuel' =>
      if (pos <=? start)%nat then d
      else
        let parent := ((pos - 1) / 2)%nat in
        match nth_error d pos, nth_error d parent with
        | Some e, Some p => if hle e p then d else sift_up fuel' (swap d pos parent) start parent
        | _, _ => d
        end
    end.

  Definition heap_push (d : list A) (x : A) : list A :=
    let d' := d ++ [x] in sift_up (length d') d' 0 (length d).

  (** the descent of sift_down_to_bottom: returns data and final hole position *)
  Fixpoint sift_down (fuel : nat) (d : list A) (pos : nat) : list A * nat :=
    match fuel with
    | O => (d, pos)
    | S fuel' =>
      let endn := length d in
      let child := (2 * pos + 1)%nat in
      if (child + 2 <=? endn)%nat then           (* child <= end - 2 : both children exist *)
        match nth_error d child, nth_error d (child + 1) with
        | Some a, Some b =>
          let c := if hle a b then (child + 1)%nat else child in
          sift_down fuel' (swap d pos c) c
        | _, _ => (d, pos)
        end
      else if (child + 1 =? endn)%nat then (swap d pos child, child)
      else (d, pos)
    end.

  Definition heap_pop (d : list A) : option (A * list A) :=
    match rev d with
    | [] => None
    | last :: _ =>
      let d' := removelast d in
      match d' with
      | [] => Some (last, [])
      | top :: rest =>
        let d1 := last :: rest in
        let '(d2, pos) := sift_down (length d1) d1 0 in
        Some (top, sift_up (length d2) d2 0 pos)
      end
    end.
End Heap.
