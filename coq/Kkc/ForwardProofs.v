(** Facts about scores, chains, the exhaustive enumeration [all_paths] and the forward (Viterbi) pass.
    Used by SearchProofs.v; final statements are collected in Props/C02.v. *)
From Coq Require Import List Arith ZArith Lia Bool ZifyBool.
From Chokan Require Import Base.Str Base.ListUtil Dic.Speech Gen.SpeechNames Kkc.Context Gen.ScoreTables
  Kkc.Lattice Kkc.Score Kkc.Heap Kkc.Search Kkc.Paths.
Local Open Scope Z_scope.

(** * Score arithmetic *)

Lemma NC_neg : NON_CONNECT < 0.
Proof. reflexivity. Qed.

(** a "score value": either the canonical not-connectable value or a non-negative number *)
Definition sval (z : Z) : Prop := z = NON_CONNECT \/ 0 <= z.

Ltac sadd_solve :=
  unfold sadd, sval in *; pose proof NC_neg;
  repeat match goal with
         | |- context [(?a <? ?b)] => destruct (Z.ltb_spec a b)
         | H : context [(?a <? ?b)] |- _ => destruct (Z.ltb_spec a b)
         end; cbn [orb andb] in *; try lia.

Lemma sadd_comm a b : sadd a b = sadd b a.
Proof. sadd_solve. Qed.

Lemma sadd_assoc a b c : sadd (sadd a b) c = sadd a (sadd b c).
Proof. sadd_solve. Qed.

Lemma sadd_sval a b : sval (sadd a b).
Proof. sadd_solve. Qed.

Lemma sadd_nonneg_inv a b : 0 <= sadd a b -> 0 <= a /\ 0 <= b /\ sadd a b = a + b.
Proof. sadd_solve. Qed.

Lemma sadd_nonneg_intro a b : 0 <= a -> 0 <= b -> sadd a b = a + b.
Proof. sadd_solve. Qed.

(** rewrite every [sadd] whose arguments are provably non-negative into a sum, innermost first *)
Ltac sadd_pos :=
  repeat match goal with
         | |- context [sadd ?a ?b] => rewrite (sadd_nonneg_intro a b) by lia
         end.
Ltac sadd_pos_in H :=
  repeat match type of H with
         | context [sadd ?a ?b] => rewrite (sadd_nonneg_intro a b) in H by lia
         end.

Lemma sadd_neg_l a b : a < 0 -> sadd a b = NON_CONNECT.
Proof. sadd_solve. Qed.

Lemma sadd_neg_r a b : b < 0 -> sadd a b = NON_CONNECT.
Proof. sadd_solve. Qed.

Lemma sadd_0_r a : sval a -> sadd a 0 = a.
Proof. sadd_solve. Qed.

Lemma sadd_0_l a : sval a -> sadd 0 a = a.
Proof. sadd_solve. Qed.

Lemma sval_cases a : sval a -> a < 0 \/ 0 <= a.
Proof. sadd_solve. Qed.

Lemma sadd_le_mono a b c : sval a -> 0 <= sadd a c -> a <= b -> sadd a c <= sadd b c.
Proof. sadd_solve. Qed.

(** * Chain scores *)
Section Chains.
  Variable ctx : context.
  Variable f : freq.

  Lemma chain_score_cons2 p q rest :
    chain_score ctx f (p :: q :: rest)
    = sadd (sadd (edge_score ctx p q) (node_score ctx f q)) (chain_score ctx f (q :: rest)).
  Proof. reflexivity. Qed.

  Lemma chain_score_single p : chain_score ctx f [p] = 0.
  Proof. reflexivity. Qed.

  Lemma chain_score_sval ch : sval (chain_score ctx f ch).
  Proof.
    destruct ch as [|p [|q r]].
    - right; cbn [chain_score]; lia.
    - right; cbn [chain_score]; lia.
    - rewrite chain_score_cons2. apply sadd_sval.
  Qed.

  Lemma chain_score_app a h b :
    chain_score ctx f (a ++ h :: b) = sadd (chain_score ctx f (a ++ [h])) (chain_score ctx f (h :: b)).
  Proof.
    induction a as [|x a IH].
    - cbn [app]. rewrite chain_score_single. symmetry. apply sadd_0_l. apply chain_score_sval.
    - destruct a as [|y a].
      + cbn [app]. rewrite !chain_score_cons2, chain_score_single.
        rewrite (sadd_0_r (sadd _ _)) by apply sadd_sval. reflexivity.
      + change ((x :: y :: a) ++ h :: b) with (x :: y :: (a ++ h :: b)).
        change ((x :: y :: a) ++ [h]) with (x :: y :: (a ++ [h])).
        rewrite !chain_score_cons2.
        change (y :: a ++ h :: b) with ((y :: a) ++ h :: b).
        change (y :: a ++ [h]) with ((y :: a) ++ [h]).
        rewrite IH. symmetry. apply sadd_assoc.
  Qed.
End Chains.

(** * Nodes of a graph, predecessors *)

Definition node_in (g : graph) (v : lnode) : Prop :=
  exists i l j, nth_error g i = Some l /\ nth_error l j = Some v.

Definition pn_in (g : graph) (p : pnode) : Prop :=
  match p with PNode v => node_in g v | _ => True end.

Lemma node_in_ok g v : graph_wf g -> node_in g v ->
  (n_end v < length g)%nat /\ (1 <= n_len v <= S (n_end v))%nat
  /\ exists l, nth_error g (n_end v) = Some l /\ nth_error l (n_slot v) = Some v.
Proof.
  intros Hwf (i & l & j & Hi & Hj).
  destruct (Hwf i l Hi j v Hj) as (He & Hs & Hl).
  subst i j. split; [|split; [exact Hl|]].
  - apply nth_error_Some. congruence.
  - exists l; split; assumption.
Qed.

Lemma In_nth_default_node_in (g : graph) k v : In v (nth k g []) -> node_in g v.
Proof.
  intros Hin.
  destruct (nth_error g k) as [l|] eqn:Hk.
  - rewrite (nth_error_nth g k [] Hk) in Hin.
    apply In_nth_error in Hin as [j Hj]. exists k, l, j; split; assumption.
  - apply nth_error_None in Hk. rewrite nth_overflow in Hin by exact Hk. destruct Hin.
Qed.

Lemma previous_in g p q : In q (previous_nodes g p) -> pn_in g q /\ q <> PEos.
Proof.
  destruct p as [| |n]; cbn [previous_nodes].
  - intros [].
  - destruct (length g) as [|k] eqn:Hlen.
    + intros [<-|[]]. split; [exact I|discriminate].
    + intros Hin. apply in_map_iff in Hin as (v & <- & Hv). split; [|discriminate].
      cbn [pn_in]. eapply In_nth_default_node_in; eassumption.
  - destruct (n_end n <? n_len n)%nat.
    + intros [<-|[]]. split; [exact I|discriminate].
    + destruct (nth_error g (n_end n - n_len n)) as [l|] eqn:Hl; [|intros []].
      intros Hin. apply in_map_iff in Hin as (v & <- & Hv). split; [|discriminate].
      cbn [pn_in]. apply In_nth_error in Hv as [j Hj]. exists (n_end n - n_len n)%nat, l, j. split; assumption.
Qed.

Lemma previous_bos g : previous_nodes g PBos = [].
Proof. reflexivity. Qed.

(** the position of a path node; predecessors are strictly earlier *)
Definition rank (g : graph) (p : pnode) : nat :=
  match p with PBos => 0 | PNode v => S (n_end v) | PEos => S (length g) end.

Lemma previous_rank g p q : graph_wf g -> pn_in g p -> In q (previous_nodes g p) -> (rank g q < rank g p)%nat.
Proof.
  intros Hwf Hp Hq. destruct p as [| |n]; cbn [previous_nodes] in Hq.
  - destruct Hq.
  - cbn [rank]. destruct (length g) as [|k] eqn:Hlen.
    + destruct Hq as [<-|[]]. cbn [rank]. lia.
    + apply in_map_iff in Hq as (v & <- & Hv). cbn [rank].
      assert (Hk : (k < length g)%nat) by lia.
      destruct (nth_error g k) as [l|] eqn:Hl; [|apply nth_error_None in Hl; lia].
      rewrite (nth_error_nth g k [] Hl) in Hv. apply In_nth_error in Hv as [j Hj].
      destruct (Hwf k l Hl j v Hj) as (He & _). lia.
  - cbn [pn_in] in Hp. destruct (node_in_ok g n Hwf Hp) as (Hlt & Hlen & _).
    cbn [rank]. destruct (Nat.ltb_spec (n_end n) (n_len n)) as [Hlt'|Hge].
    + destruct Hq as [<-|[]]. cbn [rank]. lia.
    + destruct (nth_error g (n_end n - n_len n)) as [l|] eqn:Hl; [|destruct Hq].
      apply in_map_iff in Hq as (v & <- & Hv). cbn [rank]. apply In_nth_error in Hv as [j Hj].
      destruct (Hwf _ l Hl j v Hj) as (He & _). lia.
Qed.

(** * Well-formedness is a property of the shape *)

Lemma Forall2_nth_l {A B} (R : A -> B -> Prop) l l' i x :
  Forall2 R l l' -> nth_error l i = Some x -> exists y, nth_error l' i = Some y /\ R x y.
Proof.
  intros H; revert i; induction H as [|a b l l' Hab H IH]; intros [|i] Hi; cbn in *; try discriminate.
  - inversion Hi; subst. eauto.
  - eauto.
Qed.

Lemma Forall2_nth_r {A B} (R : A -> B -> Prop) l l' i y :
  Forall2 R l l' -> nth_error l' i = Some y -> exists x, nth_error l i = Some x /\ R x y.
Proof.
  intros H; revert i; induction H as [|a b l l' Hab H IH]; intros [|i] Hi; cbn in *; try discriminate.
  - inversion Hi; subst. eauto.
  - eauto.
Qed.

Lemma same_node_len a b : same_node a b -> n_len a = n_len b.
Proof. intros (_ & _ & Hk). unfold n_len. rewrite Hk. reflexivity. Qed.

Lemma same_shape_wf g g' : same_shape g g' -> graph_wf g -> graph_wf g'.
Proof.
  intros Hs Hwf i l' Hi j n' Hj.
  destruct (Forall2_nth_r _ _ _ _ _ Hs Hi) as (l & Hl & Hll).
  destruct (Forall2_nth_r _ _ _ _ _ Hll Hj) as (n & Hn & Hnn).
  destruct (Hwf i l Hl j n Hn) as (He & Hsl & Hlen).
  pose proof (same_node_len _ _ Hnn) as Hlen'.
  destruct Hnn as (H1 & H2 & H3). unfold node_ok. rewrite <- H1, <- H2, <- Hlen'. auto.
Qed.

Lemma Forall2_len {A B} (R : A -> B -> Prop) l l' : Forall2 R l l' -> length l = length l'.
Proof. intros H; induction H; cbn; congruence. Qed.

Lemma same_shape_len g g' : same_shape g g' -> length g = length g'.
Proof. intros H; induction H; cbn; congruence. Qed.

(** * [all_paths] is exactly the set of complete chains *)

Lemma chain_linked_cons_iff g q p rest : chain_linked g (q :: p :: rest) <-> In q (previous_nodes g p) /\ chain_linked g (p :: rest).
Proof. reflexivity. Qed.

Lemma chain_linked_mid g a x y b : chain_linked g (a ++ x :: y :: b) -> In x (previous_nodes g y) /\ chain_linked g (x :: y :: b).
Proof.
  induction a as [|z a IH]; cbn [app]; intros H.
  - split; [apply H|exact H].
  - destruct a as [|w a]; cbn [app] in *.
    + apply chain_linked_cons_iff in H as [_ H]. apply IH. exact H.
    + apply chain_linked_cons_iff in H as [_ H]. apply IH. exact H.
Qed.

Lemma chain_linked_tail g a c : c <> [] -> chain_linked g (a ++ c) -> chain_linked g c.
Proof.
  intros Hc. induction a as [|z a IH]; cbn [app]; intros H; [exact H|].
  apply IH. destruct (a ++ c) as [|w r] eqn:Hac.
  - destruct a; cbn in Hac; [congruence|discriminate].
  - apply chain_linked_cons_iff in H as [_ H]. exact H.
Qed.

Lemma chain_linked_last g ch : chain_linked g ch -> exists pre, ch = pre ++ [PEos].
Proof.
  induction ch as [|p ch IH]; [intros []|].
  destruct ch as [|q r].
  - cbn. intros ->. exists []. reflexivity.
  - intros H. apply chain_linked_cons_iff in H as [_ H]. destruct (IH H) as [pre Hpre].
    exists (p :: pre). cbn [app]. congruence.
Qed.

Lemma extend_sound g fuel : forall c ch, In ch (extend_chain fuel g c) -> chain_linked g c -> complete_chain g ch.
Proof.
  induction fuel as [|fuel IH]; intros c ch Hin Hc; cbn [extend_chain] in Hin; [destruct Hin|].
  destruct c as [|p c']; [destruct Hin|].
  destruct (is_bos p) eqn:Hb.
  - destruct Hin as [<-|[]]. split; [|exact Hc]. destruct p; cbn in Hb; try discriminate. reflexivity.
  - apply in_flat_map in Hin as (q & Hq & Hin). apply (IH _ _ Hin).
    apply chain_linked_cons_iff. split; assumption.
Qed.

Lemma extend_complete g : graph_wf g -> forall pre c fuel,
  c <> [] -> chain_linked g (pre ++ c) -> hd PEos (pre ++ c) = PBos -> pn_in g (hd PEos c) ->
  (rank g (hd PEos c) < fuel)%nat -> In (pre ++ c) (extend_chain fuel g c).
Proof.
  intros Hwf pre. induction pre as [|x pre IH] using rev_ind; intros c fuel Hne Hl Hhd Hin Hr.
  - cbn [app] in *. destruct c as [|p c']; [congruence|]. cbn [hd] in *. subst p.
    destruct fuel as [|fuel]; [lia|]. cbn [extend_chain is_bos]. left; reflexivity.
  - rewrite <- app_assoc in *. cbn [app] in *.
    destruct c as [|p c']; [congruence|]. cbn [hd] in *.
    destruct (chain_linked_mid _ _ _ _ _ Hl) as [Hx Hl'].
    destruct fuel as [|fuel]; [lia|]. cbn [extend_chain].
    destruct p as [| |n]; [destruct Hx| |]; cbn [is_bos]; apply in_flat_map; exists x; (split; [exact Hx|]).
    + apply IH; try assumption; [discriminate|apply (previous_in _ _ _ Hx)|].
      cbn [hd]. pose proof (previous_rank _ _ _ Hwf Hin Hx). lia.
    + apply IH; try assumption; [discriminate|apply (previous_in _ _ _ Hx)|].
      cbn [hd]. pose proof (previous_rank _ _ _ Hwf Hin Hx). lia.
Qed.

Theorem all_paths_complete g ch : graph_wf g -> (In ch (all_paths g) <-> complete_chain g ch).
Proof.
  intros Hwf. unfold all_paths. split.
  - intros Hin. apply (extend_sound _ _ _ _ Hin). reflexivity.
  - intros [Hhd Hl]. destruct (chain_linked_last _ _ Hl) as [pre ->].
    apply extend_complete; try assumption; [discriminate|exact I|cbn [hd rank]; lia].
Qed.

(** * [best_score] is the maximum of the connectable candidate scores *)
Section Forward.
  Variable ctx : context.
  Variable f : freq.

  (** the score of reaching [cur] through predecessor [p] *)
  Definition via (cur p : pnode) : Z :=
    sadd (sadd (pscore p) (node_score ctx f cur)) (edge_score ctx p cur).

  Lemma sgt_true s best : sval best -> sgt s best = true -> 0 <= s /\ best <= s.
  Proof. unfold sgt. sadd_solve; try discriminate. Qed.

  Lemma sgt_false s best : sval best -> sval s -> sgt s best = false -> s <= best.
  Proof. unfold sgt. sadd_solve; try discriminate. Qed.

  Definition bfold (cur : pnode) (prevs : list pnode) (best0 : Z) : Z :=
    fold_left (fun best p => if sgt (via cur p) best then via cur p else best) prevs best0.

  Lemma best_fold_spec cur prevs : forall best0, sval best0 ->
    sval (bfold cur prevs best0) /\ best0 <= bfold cur prevs best0
    /\ (forall p, In p prevs -> via cur p <= bfold cur prevs best0)
    /\ (bfold cur prevs best0 = best0 \/ exists p, In p prevs /\ bfold cur prevs best0 = via cur p).
  Proof.
    induction prevs as [|p prevs IH]; intros best0 Hb.
    - unfold bfold; cbn [fold_left]. repeat split; [exact Hb|lia|intros p []|left; reflexivity].
    - change (bfold cur (p :: prevs) best0)
        with (bfold cur prevs (if sgt (via cur p) best0 then via cur p else best0)).
      destruct (sgt (via cur p) best0) eqn:Hs.
      + destruct (sgt_true _ _ Hb Hs) as [H0 Hle].
        destruct (IH (via cur p) (or_intror H0)) as (Hv & Hge & Hall & Hex).
        split; [exact Hv|]. split; [lia|]. split.
        * intros q [<-|Hq]; [exact Hge|apply Hall; exact Hq].
        * right. destruct Hex as [->|(q & Hq & ->)]; [exists p; split; [left; reflexivity|reflexivity]|].
          exists q; split; [right; exact Hq|reflexivity].
      + assert (Hle : via cur p <= best0) by (apply sgt_false; [exact Hb|apply sadd_sval|exact Hs]).
        destruct (IH best0 Hb) as (Hv & Hge & Hall & Hex).
        split; [exact Hv|]. split; [exact Hge|]. split.
        * intros q [<-|Hq]; [lia|apply Hall; exact Hq].
        * destruct Hex as [->|(q & Hq & ->)]; [left; reflexivity|].
          right. exists q; split; [right; exact Hq|reflexivity].
  Qed.

  Lemma best_score_bfold cur prevs : best_score ctx f cur prevs = bfold cur prevs NON_CONNECT.
  Proof. reflexivity. Qed.

  Lemma best_score_spec cur prevs :
    sval (best_score ctx f cur prevs)
    /\ (forall p, In p prevs -> via cur p <= best_score ctx f cur prevs)
    /\ (0 <= best_score ctx f cur prevs -> exists p, In p prevs /\ best_score ctx f cur prevs = via cur p).
  Proof.
    rewrite best_score_bfold.
    destruct (best_fold_spec cur prevs NON_CONNECT (or_introl eq_refl)) as (Hv & _ & Hall & Hex).
    split; [exact Hv|]. split; [exact Hall|].
    intros H0. destruct Hex as [Heq|Hex]; [|exact Hex].
    rewrite Heq in H0. pose proof NC_neg. lia.
  Qed.

  (** * The forward pass *)

  (** the value [forward_dp] stores in a node: it depends on the node only through its position and kind *)
  Definition bs (g : graph) (v : lnode) : Z := best_score ctx f (PNode v) (previous_nodes g (PNode v)).

  Definition scored (g : graph) (v : lnode) : Prop := n_score v = bs g v.

  (** every node of the graph carries the best score over its predecessors (local consistency) *)
  Definition scored_graph (g : graph) : Prop := forall v, node_in g v -> scored g v.

  Definition bsk (g : graph) (e : nat) (k : nkind) : Z :=
    bs g {| n_end := e; n_slot := 0; n_kind := k; n_score := 0 |}.

  Lemma bs_bsk g v : bs g v = bsk g (n_end v) (n_kind v).
  Proof. reflexivity. Qed.

  Lemma bs_same_node g v v' : same_node v v' -> bs g v = bs g v'.
  Proof. intros (He & _ & Hk). rewrite !bs_bsk, He, Hk. reflexivity. Qed.

  (** the predecessors of a node ending at [n_end v] live strictly below that position *)
  Lemma previous_local g g' v : (1 <= n_len v)%nat ->
    (forall i, (i < n_end v)%nat -> nth_error g i = nth_error g' i) ->
    previous_nodes g (PNode v) = previous_nodes g' (PNode v).
  Proof.
    intros Hlen Hagree. cbn [previous_nodes].
    destruct (Nat.ltb_spec (n_end v) (n_len v)) as [Hlt|Hge]; [reflexivity|].
    rewrite Hagree by lia. reflexivity.
  Qed.

  Lemma bs_local g g' v : (1 <= n_len v)%nat ->
    (forall i, (i < n_end v)%nat -> nth_error g i = nth_error g' i) -> bs g v = bs g' v.
  Proof. intros Hlen Hagree. unfold bs. rewrite (previous_local g g' v Hlen Hagree). reflexivity. Qed.

  Definition step_node (g : graph) (n : lnode) : graph :=
    upd_nth g (n_end n) (fun l => upd_nth l (n_slot n) (set_score (bs g n))).
  Definition step_pos (g : graph) (i : nat) : graph := fold_left step_node (nth i g []) g.

  Lemma forward_dp_eq g : forward_dp ctx f g = fold_left step_pos (seq 0 (length g)) g.
  Proof. reflexivity. Qed.

  Lemma nth_error_nth_nil_or {A} (g : list (list A)) k : nth_error g k = Some (nth k g []) \/ (nth_error g k = None /\ nth k g [] = []).
  Proof.
    destruct (nth_error g k) as [l|] eqn:Hk.
    - left. rewrite (nth_error_nth g k [] Hk). reflexivity.
    - right. split; [reflexivity|]. apply nth_error_None in Hk. apply nth_overflow. exact Hk.
  Qed.

  Lemma step_node_other g n i : i <> n_end n -> nth_error (step_node g n) i = nth_error g i.
  Proof. intros Hne. unfold step_node. apply nth_error_upd_nth_neq. congruence. Qed.

  Lemma step_node_shape g n : same_shape g (step_node g n).
  Proof. apply set_score_shape. Qed.

  (** one position: the nodes of position [k] are processed in slot order *)
  Lemma step_pos_inner gk k : graph_wf gk -> forall ns done g1,
    same_shape gk g1 ->
    (forall i, i <> k -> nth_error g1 i = nth_error gk i) ->
    nth k gk [] = done ++ ns ->
    (forall l j v, nth_error g1 k = Some l -> (j < length done)%nat -> nth_error l j = Some v -> scored g1 v) ->
    let g2 := fold_left step_node ns g1 in
    same_shape gk g2 /\ (forall i, i <> k -> nth_error g2 i = nth_error gk i)
    /\ (forall l j v, nth_error g2 k = Some l -> nth_error l j = Some v -> scored g2 v).
  Proof.
    intros Hwf ns. induction ns as [|n ns IH]; intros done g1 Hshape Hother Hsplit Hdone; cbn [fold_left].
    - cbv zeta. split; [exact Hshape|]. split; [exact Hother|].
      intros l j v Hl Hj. apply (Hdone l j v Hl); [|exact Hj].
      rewrite app_nil_r in Hsplit.
      destruct (Forall2_nth_r _ _ _ _ _ Hshape Hl) as (l0 & Hl0 & Hll).
      rewrite (nth_error_nth gk k [] Hl0) in Hsplit. subst l0.
      rewrite (Forall2_len _ _ _ Hll). apply nth_error_Some. congruence.
    - (* the node [n] sits at (k, length done) in gk *)
      assert (Hk : nth_error gk k = Some (done ++ n :: ns)).
      { destruct (nth_error_nth_nil_or gk k) as [H|[_ H]]; [rewrite Hsplit in H; exact H|].
        rewrite H in Hsplit. destruct done; discriminate. }
      assert (Hn : nth_error (done ++ n :: ns) (length done) = Some n).
      { rewrite nth_error_app2 by lia. rewrite Nat.sub_diag. reflexivity. }
      destruct (Hwf k _ Hk _ _ Hn) as (Hend & Hslot & Hlen).
      apply (IH (done ++ [n])).
      + eapply same_shape_trans; [exact Hshape|apply step_node_shape].
      + intros i Hi. rewrite step_node_other by congruence. apply Hother; exact Hi.
      + rewrite <- app_assoc. exact Hsplit.
      + intros l j v Hl Hj Hv.
        (* agreement of g1 and its update below position k *)
        assert (Hagree : forall i, (i < k)%nat -> nth_error g1 i = nth_error (step_node g1 n) i).
        { intros i Hi. symmetry. apply step_node_other. lia. }
        destruct (Forall2_nth_l _ _ _ _ _ Hshape Hk) as (l1 & Hl1 & Hll1).
        unfold step_node in Hl. rewrite Hend, Hslot in Hl.
        rewrite nth_error_upd_nth_eq, Hl1 in Hl. cbn [option_map] in Hl. inversion Hl; subst l; clear Hl.
        assert (Hwf1 : graph_wf g1) by (eapply same_shape_wf; eassumption).
        rewrite app_length in Hj. cbn [length] in Hj.
        destruct (Nat.eq_dec j (length done)) as [->|Hne].
        * rewrite nth_error_upd_nth_eq in Hv.
          destruct (nth_error l1 (length done)) as [m|] eqn:Hm; [|discriminate].
          cbn [option_map] in Hv. inversion Hv; subst v; clear Hv.
          destruct (Forall2_nth_l _ _ _ _ _ Hll1 Hn) as (m' & Hm' & Hnm).
          rewrite Hm in Hm'. inversion Hm'; subst m'; clear Hm'.
          unfold scored. cbn [set_score n_score].
          rewrite (bs_same_node g1 n m Hnm).
          rewrite (bs_same_node _ (set_score (bs g1 m) m) m) by (repeat split).
          destruct (Hwf1 k l1 Hl1 _ _ Hm) as (Hem & _ & Hlm).
          apply bs_local; [lia|]. intros i Hi. apply Hagree. lia.
        * rewrite nth_error_upd_nth_neq in Hv by congruence.
          assert (Hsc : scored g1 v) by (apply (Hdone l1 j v Hl1); [lia|exact Hv]).
          unfold scored in *. rewrite Hsc.
          destruct (Hwf1 k l1 Hl1 _ _ Hv) as (Hev & _ & Hlv).
          apply bs_local; [lia|]. intros i Hi. apply Hagree. lia.
  Qed.

  Lemma step_pos_spec g1 k : graph_wf g1 ->
    let g2 := step_pos g1 k in
    same_shape g1 g2 /\ (forall i, i <> k -> nth_error g2 i = nth_error g1 i)
    /\ (forall l j v, nth_error g2 k = Some l -> nth_error l j = Some v -> scored g2 v).
  Proof.
    intros Hwf. unfold step_pos.
    apply (step_pos_inner g1 k Hwf (nth k g1 []) [] g1).
    - apply same_shape_refl.
    - reflexivity.
    - reflexivity.
    - intros l j v _ Hj. cbn in Hj. lia.
  Qed.

  Lemma forward_loop g0 : graph_wf g0 -> forall m k g1,
    same_shape g0 g1 ->
    (forall i l j v, (i < k)%nat -> nth_error g1 i = Some l -> nth_error l j = Some v -> scored g1 v) ->
    let g2 := fold_left step_pos (seq k m) g1 in
    same_shape g0 g2 /\
    (forall i l j v, (i < k + m)%nat -> nth_error g2 i = Some l -> nth_error l j = Some v -> scored g2 v).
  Proof.
    intros Hwf0 m. induction m as [|m IH]; intros k g1 Hshape Hsc; cbn [seq fold_left].
    - cbv zeta. split; [exact Hshape|]. intros i l j v Hi. apply Hsc. lia.
    - assert (Hwf1 : graph_wf g1) by (eapply same_shape_wf; eassumption).
      destruct (step_pos_spec g1 k Hwf1) as (Hs2 & Hother & Hk). cbv zeta in Hs2, Hother, Hk.
      assert (Hwf2 : graph_wf (step_pos g1 k)) by (eapply same_shape_wf; eassumption).
      destruct (IH (S k) (step_pos g1 k)) as (Hs3 & Hsc3).
      + eapply same_shape_trans; eassumption.
      + intros i l j v Hi Hl Hv.
        destruct (Nat.eq_dec i k) as [->|Hne]; [apply (Hk l j v Hl Hv)|].
        rewrite Hother in Hl by exact Hne.
        assert (Hv1 : scored g1 v) by (apply (Hsc i l j v); [lia|assumption|assumption]).
        unfold scored in *. rewrite Hv1.
        destruct (Hwf1 i l Hl j v Hv) as (Hev & _ & Hlv).
        apply bs_local; [lia|]. intros i' Hi'. symmetry. apply Hother. lia.
      + cbv zeta in Hs3, Hsc3. split; [exact Hs3|].
        intros i l j v Hi. apply Hsc3. lia.
  Qed.

  Theorem forward_dp_scored g0 : graph_wf g0 -> scored_graph (forward_dp ctx f g0).
  Proof.
    intros Hwf. rewrite forward_dp_eq.
    destruct (forward_loop g0 Hwf (length g0) 0 g0 (same_shape_refl g0)) as (Hs & Hsc).
    { intros i l j v Hi. lia. }
    cbv zeta in Hs, Hsc.
    intros v (i & l & j & Hl & Hv). apply (Hsc i l j v); [|exact Hl|exact Hv].
    cbn [Nat.add]. rewrite (same_shape_len _ _ Hs). apply nth_error_Some. congruence.
  Qed.

  Lemma forward_dp_wf g0 : graph_wf g0 -> graph_wf (forward_dp ctx f g0).
  Proof. apply same_shape_wf. apply forward_dp_same_shape. Qed.
End Forward.

(** * Prefixes: chains from BOS up to a node, and exactness of the forward scores *)

(** [prefix_to g l v]: [l = PBos :: .. :: v], each element a predecessor of the next *)
Inductive prefix_to (g : graph) : list pnode -> pnode -> Prop :=
| prefix_bos : prefix_to g [PBos] PBos
| prefix_step l p q : prefix_to g l p -> In p (previous_nodes g q) -> prefix_to g (l ++ [q]) q.

Lemma prefix_to_last g l p : prefix_to g l p -> exists l0, l = l0 ++ [p].
Proof. intros H; destruct H as [|l p q H Hp]; [exists []; reflexivity|exists l; reflexivity]. Qed.

Lemma prefix_to_hd g l p : prefix_to g l p -> hd PEos l = PBos.
Proof.
  intros H; induction H as [|l p q H IH Hp]; [reflexivity|].
  destruct l as [|x l]; [destruct (prefix_to_last _ _ _ H) as [l0 Hl0]; destruct l0; discriminate|exact IH].
Qed.

(** a complete chain splits at any of its nodes into a prefix and the rest *)
Lemma linked_prefix g : forall pre h rest,
  chain_linked g (pre ++ h :: rest) -> hd PEos (pre ++ [h]) = PBos -> prefix_to g (pre ++ [h]) h.
Proof.
  intros pre. induction pre as [|x pre IH] using rev_ind; intros h rest Hl Hhd.
  - cbn in Hhd. subst h. constructor.
  - rewrite <- app_assoc in Hl. cbn [app] in Hl.
    destruct (chain_linked_mid _ _ _ _ _ Hl) as [Hx _].
    apply prefix_step with (p := x); [|exact Hx].
    apply (IH x (h :: rest) Hl).
    destruct pre as [|y pre]; cbn in Hhd |- *; exact Hhd.
Qed.

Section Exact.
  Variable ctx : context.
  Variable f : freq.
  Variable g : graph.
  Hypothesis Hwf : graph_wf g.
  Hypothesis Hsc : scored_graph ctx f g.

  Lemma node_score_sval v : node_in g v -> sval (n_score v).
  Proof. intros Hv. rewrite (Hsc v Hv). apply best_score_spec. Qed.

  Lemma prefix_snoc_score l0 p q :
    chain_score ctx f ((l0 ++ [p]) ++ [q])
    = sadd (chain_score ctx f (l0 ++ [p])) (sadd (edge_score ctx p q) (node_score ctx f q)).
  Proof.
    rewrite <- app_assoc. cbn [app]. rewrite chain_score_app.
    rewrite chain_score_cons2, chain_score_single.
    rewrite (sadd_0_r (sadd _ _)) by apply sadd_sval. reflexivity.
  Qed.

  (** local step: reaching [v] through [p] never beats the stored score of [v] *)
  Lemma via_le v p : node_in g v -> In p (previous_nodes g (PNode v)) -> via ctx f (PNode v) p <= n_score v.
  Proof.
    intros Hv Hp. rewrite (Hsc v Hv). unfold bs.
    apply (proj1 (proj2 (best_score_spec ctx f (PNode v) (previous_nodes g (PNode v))))). exact Hp.
  Qed.

  Theorem prefix_bound l v : prefix_to g l v -> v <> PEos -> pn_in g v ->
    0 <= chain_score ctx f l -> chain_score ctx f l <= pscore v.
  Proof.
    intros H; induction H as [|l p q H IH Hp]; intros Hne Hin H0.
    - cbn. lia.
    - destruct q as [| |v]; [destruct Hp|congruence|]. cbn [pn_in pscore] in *.
      destruct (prefix_to_last _ _ _ H) as [l0 ->].
      rewrite prefix_snoc_score in H0 |- *.
      destruct (previous_in _ _ _ Hp) as [Hpin Hpne].
      destruct (sadd_nonneg_inv _ _ H0) as (H1 & H2 & ->).
      destruct (sadd_nonneg_inv _ _ H2) as (H3 & H4 & ->).
      specialize (IH Hpne Hpin H1).
      pose proof (via_le v p Hin Hp) as Hvia. unfold via in Hvia.
      sadd_pos_in Hvia. lia.
  Qed.

  Theorem prefix_attained : forall k v, (n_end v < k)%nat -> node_in g v -> 0 <= n_score v ->
    exists l, prefix_to g l (PNode v) /\ chain_score ctx f l = n_score v.
  Proof.
    induction k as [|k IH]; intros v Hk Hv H0; [lia|].
    pose proof (Hsc v Hv) as Hs. unfold scored, bs in Hs.
    destruct (best_score_spec ctx f (PNode v) (previous_nodes g (PNode v))) as (_ & _ & Hex).
    rewrite <- Hs in Hex. destruct (Hex H0) as (p & Hp & Heq). clear Hex.
    rewrite Heq in H0. unfold via in Heq, H0.
    destruct (sadd_nonneg_inv _ _ H0) as (H1 & H2 & Heq1). rewrite Heq1 in Heq.
    destruct (sadd_nonneg_inv _ _ H1) as (H3 & H4 & Heq2). rewrite Heq2 in Heq.
    destruct (previous_in _ _ _ Hp) as [Hpin Hpne].
    pose proof (previous_rank g (PNode v) p Hwf Hv Hp) as Hrank.
    destruct p as [| |u]; [|congruence|].
    - exists ([] ++ [PBos] ++ [PNode v]). split.
      + apply prefix_step with (p := PBos); [constructor|exact Hp].
      + change ([] ++ [PBos] ++ [PNode v]) with (([] ++ [PBos]) ++ [PNode v]).
        rewrite prefix_snoc_score. cbn [app]. rewrite chain_score_single.
        cbn [pscore] in Heq. sadd_pos. lia.
    - cbn [rank pscore pn_in] in *.
      destruct (IH u ltac:(lia) Hpin H3) as (l & Hl & Hlsc).
      exists (l ++ [PNode v]). split.
      + apply prefix_step with (p := PNode u); assumption.
      + destruct (prefix_to_last _ _ _ Hl) as [l0 ->].
        rewrite prefix_snoc_score. rewrite Hlsc.
        sadd_pos. lia.
  Qed.

  (** exactness: the stored score is the maximum of the prefix scores (all of which are
      [NON_CONNECT] or non-negative), and [NON_CONNECT] when no prefix is connectable *)
  Theorem forward_exact_graph v : node_in g v ->
    sval (n_score v)
    /\ (forall l, prefix_to g l (PNode v) -> chain_score ctx f l <= n_score v)
    /\ (0 <= n_score v -> exists l, prefix_to g l (PNode v) /\ chain_score ctx f l = n_score v).
  Proof.
    intros Hv. pose proof (node_score_sval v Hv) as Hsv. split; [exact Hsv|]. split.
    - intros l Hl. destruct (sval_cases _ (chain_score_sval ctx f l)) as [Hneg|Hpos].
      + destruct (chain_score_sval ctx f l) as [->|]; [|lia].
        destruct Hsv as [->|]; [lia|]. pose proof NC_neg. lia.
      + apply (prefix_bound l (PNode v) Hl); [discriminate|exact Hv|exact Hpos].
    - intros H0. apply (prefix_attained (S (n_end v))); [lia|exact Hv|exact H0].
  Qed.
End Exact.

Theorem forward_exact ctx f g0 : graph_wf g0 ->
  let g := forward_dp ctx f g0 in
  forall v, node_in g v ->
    sval (n_score v)
    /\ (forall l, prefix_to g l (PNode v) -> chain_score ctx f l <= n_score v)
    /\ (0 <= n_score v -> exists l, prefix_to g l (PNode v) /\ chain_score ctx f l = n_score v).
Proof.
  intros Hwf g v Hv. apply forward_exact_graph; [apply forward_dp_wf; exact Hwf|apply forward_dp_scored; exact Hwf|exact Hv].
Qed.

Theorem prefix_split ctx f g pre h rest :
  complete_chain g (pre ++ h :: rest) ->
  prefix_to g (pre ++ [h]) h
  /\ chain_score ctx f (pre ++ h :: rest) = sadd (chain_score ctx f (pre ++ [h])) (chain_score ctx f (h :: rest)).
Proof.
  intros [Hhd Hl]. split; [|apply chain_score_app].
  apply (linked_prefix g pre h rest Hl). rewrite <- Hhd. destruct pre; reflexivity.
Qed.
