(** Composition of the lattice theorems (Props/Lattice.v) with the search theorems (Props/C02.v):
    statements about what [get_candidates] returns (C01, C03, C16, C06, C07). *)
From Chokan Require Import Base.Str Base.ListUtil Dic.Speech Gen.SpeechNames Kkc.Context Gen.ScoreTables
  Kkc.Lattice Kkc.Score Kkc.Heap Kkc.Search Kkc.Paths Kkc.ForwardProofs.
From Chokan Require Props.C02 Props.Lattice.
From Coq Require Import Lia.
Local Open Scope Z_scope.

Definition fq_ok (f : freq) : Prop := forall c w, 0 <= freq_of f c w.

Lemma get_candidates_inv fuel input d ctx f n R : get_candidates fuel input d ctx f n = Ok (Some R) ->
  exists g, from_input input d ctx = Ok g /\ graph_wf g /\ n_best fuel ctx f (forward_dp ctx f g) n = Some R.
Proof.
  unfold get_candidates. destruct (Props.Lattice.L_from_input_total input d ctx) as (g & Hg & _ & Hwf).
  rewrite Hg. cbn [obind]. intro H. inversion H as [H1]. exists g. auto.
Qed.

(** every returned candidate is a complete chain of the scored lattice, with its text and exact score *)
Lemma result_is_path fuel input d ctx f n R : (1 <= n)%nat -> fq_ok f ->
  get_candidates fuel input d ctx f n = Ok (Some R) ->
  exists g, from_input input d ctx = Ok g /\ graph_wf g /\
    forall c, In c R ->
      complete_chain (forward_dp ctx f g) (c_chain c) /\ cand_text c = chain_text (c_chain c)
      /\ c_prio c = chain_score ctx f (c_chain c) /\ 0 <= c_prio c.
Proof.
  intros Hn Hf H. apply get_candidates_inv in H as (g & Hg & Hwf & HR). exists g. split; [assumption|]. split; [assumption|].
  intros c Hc.
  pose proof (Props.C02.C02_nbest ctx f g n fuel R Hwf Hf Hn HR) as (_ & _ & _ & Hr & _).
  destruct (Hr c Hc) as (Hin & Ht & Hp & Hnn & _).
  apply Props.C02.C02_all_paths_complete in Hin;
    [|eapply same_shape_wf; [apply forward_dp_same_shape|assumption]].
  split; [exact Hin|]. split; [exact Ht|]. split; [exact Hp|exact Hnn].
Qed.

(** an untruncated list (fewer than n entries) contains the text of every connectable complete path *)
Lemma untruncated_complete fuel input d ctx f n R g : (1 <= n)%nat -> fq_ok f ->
  from_input input d ctx = Ok g -> n_best fuel ctx f (forward_dp ctx f g) n = Some R -> (length R < n)%nat ->
  forall ch, complete_chain (forward_dp ctx f g) ch -> connectable ctx f ch -> In (chain_text ch) (map cand_text R).
Proof.
  intros Hn Hf Hg HR Hlen ch Hch Hconn.
  destruct (Props.Lattice.L_from_input_total input d ctx) as (g' & Hg' & _ & Hwf). rewrite Hg in Hg'. inversion Hg'; subst g'.
  pose proof (Props.C02.C02_nbest ctx f g n fuel R Hwf Hf Hn HR) as (_ & _ & _ & _ & Hcov).
  assert (Hin : In ch (all_paths (forward_dp ctx f g))).
  { apply Props.C02.C02_all_paths_complete; [|assumption]. eapply same_shape_wf; [apply forward_dp_same_shape|assumption]. }
  destruct (Hcov ch Hin Hconn) as [H|[H _]]; [assumption|lia].
Qed.
