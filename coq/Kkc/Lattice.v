(** Model of libs/kkc/src/graph.rs: lattice construction from an input string.

    The dictionary is a list of words per side (standard / ancillary); looking a key
    up returns the words with exactly that reading, in list order - this is what
    [HashMap<String, Vec<Word>>] keyed by the word's own reading gives (chokan-dic and
    the server build the maps that way), the trie in front of it being an exact set
    of the inserted readings (C04).  Words whose reading is empty are never found. *)
From Chokan Require Import Base.Str Base.ListUtil Dic.Speech Gen.SpeechNames Kkc.Context Gen.ScoreTables.

Record dict := { d_std : list word; d_anc : list word }.

Definition lookup (ws : list word) (key : str) : list word :=
  filter (fun w => str_eqb (w_reading w) key) ws.

Inductive nkind := KWord (w : word) | KVirtual (s : str).

(** a node of the lattice: it ends at input index [n_end], is the [n_slot]-th node ending there,
    and carries the forward (Viterbi) score once [forward_dp] has run (negative = not connectable) *)
Record lnode := { n_end : nat; n_slot : nat; n_kind : nkind; n_score : Z }.

Definition graph := list (list lnode).

Definition n_len (n : lnode) : nat :=
  match n_kind n with KWord w => length (w_reading w) | KVirtual s => length s end.
Definition n_surface (n : lnode) : str :=
  match n_kind n with KWord w => w_word w | KVirtual s => s end.
Definition n_reading (n : lnode) : str :=
  match n_kind n with KWord w => w_reading w | KVirtual s => s end.
Definition n_is_ancillary (n : lnode) : bool :=
  match n_kind n with KWord w => is_ancillary (w_speech w) | KVirtual _ => false end.
Definition n_is_word (n : lnode) : bool := match n_kind n with KWord _ => true | KVirtual _ => false end.
(** Node::start_at = end_at - (len - 1) *)
Definition n_start (n : lnode) : nat := S (n_end n) - n_len n.

(** input[i ..= j] *)
Definition slice (input : str) (i j : nat) : str := firstn (S j - i) (skipn i input).

Definition push_node (g : graph) (j : nat) (k : nkind) : graph :=
  upd_nth g j (fun l => l ++ [{| n_end := j; n_slot := length l; n_kind := k; n_score := 0%Z |}]).

Definition push_words (g : graph) (j : nat) (ws : list word) : graph :=
  fold_left (fun g w => push_node g j (KWord w)) ws g.

(** Graph::find_ancillary: every ancillary word at every position, in a graph of its own *)
Definition find_ancillary (input : str) (d : dict) : graph :=
  let len := length input in
  fold_left (fun g i =>
    fold_left (fun g j => push_words g j (lookup (d_anc d) (slice input i j))) (seq i (len - i)) g)
    (seq 0 len) (repeat [] len).

(** Graph::find_word_only_first: standard words that start at the first character *)
Definition find_word_only_first (input : str) (d : dict) (g : graph) : graph :=
  fold_left (fun g i => push_words g i (lookup (d_std d) (slice input 0 i))) (seq 0 (length input)) g.

Definition is_prefix_pat (sp : speech) : bool := match sp with Affix APrefix => true | _ => false end.
Definition is_suffix_pat (sp : speech) : bool := match sp with Affix ASuffix => true | _ => false end.

(** the ancillary nodes that are prefixes starting at the first character *)
Definition prefix_nodes (anc : graph) : list lnode :=
  filter (fun n => match n_kind n with
                   | KWord w => is_prefix_pat (w_speech w) && Nat.eqb (n_start n) 0
                   | KVirtual _ => false
                   end) (concat anc).

(** Graph::find_word_after_prefix *)
Definition find_word_after_prefix (input : str) (d : dict) (anc : graph) (g : graph) : graph :=
  let len := length input in
  fold_left (fun g p =>
    let s := S (n_end p) in
    fold_left (fun g i => push_words g i (lookup (d_std d) (slice input s i))) (seq s (len - s)) g)
    (prefix_nodes anc) g.

(** Graph::is_mergeable_ancillary *)
Definition is_mergeable (g : graph) (ctx : context) (n : lnode) : bool :=
  let s := n_start n in
  if Nat.eqb s 0 then
    match n_kind n with KWord w => head_mergeable ctx (w_speech w) | KVirtual _ => false end
  else
    match nth_error g (s - 1) with
    | Some v =>
      existsb (fun m => match n_kind m with KWord w => is_suffix_pat (w_speech w) | KVirtual _ => false end) v
      || existsb (fun m => negb (n_is_ancillary m)) v
    | None => false
    end.

(** Graph::merge_ancillaries *)
Definition merge_ancillaries (g : graph) (anc : graph) (ctx : context) : graph :=
  fold_left (fun g n => if is_mergeable g ctx n then push_node g (n_end n) (n_kind n) else g) (concat anc) g.

(** Graph::complete_virtual_nodes (returns at once on the empty input; before the fix
    [input.len() - 1] underflowed there) *)
Definition complete_virtual_nodes (input : str) (g : graph) : outcome graph :=
  match length input with
  | O => Ok g
  | S last =>
    Ok (fold_left (fun g i =>
          match nth_error g i with
          | Some (_ :: _) => push_node g last (KVirtual (slice input (S i) last))
          | _ => g
          end) (rev (seq 0 last)) g)
  end.

(** Graph::from_input *)
Definition from_input (input : str) (d : dict) (ctx : context) : outcome graph :=
  let g0 : graph := repeat [] (length input) in
  let anc := find_ancillary input d in
  let g1 := find_word_only_first input d g0 in
  let g2 := find_word_after_prefix input d anc g1 in
  let g3 := merge_ancillaries g2 anc ctx in
  complete_virtual_nodes input g3.

(** * Nodes of a path *)
Inductive pnode := PBos | PEos | PNode (n : lnode).

(** Graph::previsous_nodes *)
Definition previous_nodes (g : graph) (p : pnode) : list pnode :=
  match p with
  | PBos => []
  | PEos => match length g with
            | O => [PBos]                     (* index -1 *)
            | S k => map PNode (nth k g [])
            end
  | PNode n =>
    if (n_end n <? n_len n)%nat then [PBos]
    else match nth_error g (n_end n - n_len n) with
         | Some l => map PNode l
         | None => []                         (* self.nodes[i] would panic; never the case in a lattice *)
         end
  end.
