(** The untruncated candidate set only grows with the dictionary, with what may head the lattice,
    and does not depend on learned counts (C06, C07, C16). *)
From Chokan Require Import Base.Str Base.ListUtil Dic.Speech Gen.SpeechNames Kkc.Context Gen.ScoreTables
  Kkc.Lattice Kkc.Score Kkc.Heap Kkc.Search Kkc.Paths Kkc.ForwardProofs Kkc.LatticePaths Kkc.LatticeMono Kkc.ContextProofs Kkc.Compose.
From Chokan Require Props.C02 Props.Lattice.
From Coq Require Import Lia.
Local Open Scope Z_scope.

Theorem texts_subset : forall input d d' c c' f f' n n' fuel fuel' R R',
  dict_le d d' -> ctx_le c c' -> fq_ok f -> fq_ok f' -> (1 <= n)%nat -> (1 <= n')%nat ->
  get_candidates fuel input d c f n = Ok (Some R) ->
  get_candidates fuel' input d' c' f' n' = Ok (Some R') -> (length R' < n')%nat ->
  forall t, In t (map cand_text R) -> In t (map cand_text R').
Proof.
  intros input d d' c c' f f' n n' fuel fuel' R R' Hd Hc Hf Hf' Hn Hn' HR HR' Hlen t Ht.
  apply in_map_iff in Ht as (c0 & <- & Hc0).
  destruct (result_is_path fuel input d c f n R Hn Hf HR) as (g & Hg & Hwf & Hall).
  destruct (Hall c0 Hc0) as (Hch & Htext & Hprio & Hnn).
  apply get_candidates_inv in HR' as (g' & Hg' & Hwf' & HR').
  destruct (chain_transfer input d d' c c' g (forward_dp c f g) g' (forward_dp c' f' g') (c_chain c0)
              Hd Hc Hg (forward_dp_same_shape c f g) Hg' (forward_dp_same_shape c' f' g') Hch) as (ch' & Hch' & Hk).
  assert (Hconn : connectable c' f' ch').
  { eapply (connectable_transfer c c' f f'); [exact Hf|exact Hf'|exact Hch|exact Hch'|symmetry; exact Hk|]. unfold connectable. rewrite <- Hprio. exact Hnn. }
  rewrite Htext. rewrite <- (chain_text_kinds _ _ Hk).
  exact (untruncated_complete fuel' input d' c' f' n' R' g' Hn' Hf' Hg' HR' Hlen ch' Hch' Hconn).
Qed.
